/-!
# Mobilizer family model (shared by C03, C05, C06) — Mathlib-free, polymorphic in the scalar `K`

Mirrors, formula by formula,
* `Simbody/src/RigidBodyNodeSpec_<Type>.h` : `calcX_FM`, `calcAcrossJointVelocityJacobian(Dot)`, the overridden
  `calcReverseMobilizerH(Dot)_FM`, `calcQDot`, `calcQDotDot`, `multiplyByN/NInv/NDot`, `setUToFit*Impl`;
* `Simbody/src/RigidBodyNodeSpec.h/.cpp` : `realizePosition/Velocity` (reversal of `X_FM`), default
  `calcReverseMobilizerH_FM`, `calcReverseMobilizerHDot_FM`, `calcBodyTransforms`,
  `calcParentToChildVelocityJacobianInGround(Dot)`;
* `Simbody/src/RigidBodyNode.h/.cpp` : `findX_F0M0`, `findV_F0M0`, `reverseSpatialVelocity`,
  `calcJointIndependentKinematicsVel` (`V_GB = ~Phi*V_GP + H*u`, Coriolis acceleration);
* `SimTKcommon/Mechanics/.../Rotation.h/.cpp` : `setRotationFromAngleAboutZ`, `setRotationToBodyFixedXYZ(c,s)`,
  the two-angle body-fixed sequences, `setRotationFromQuaternion`, the `N/NInv/NDot` helpers.

and, separately, the *documented* parameterisation `doc…` written from `MobilizedBody_<Type>.h` only
(elementary axis-angle rotations, Hamilton quaternion sandwich, "rotate then slide", …).

Angles enter only through trig pairs `(c,s)`; quaternion normalisation enters through `oon = 1/|q|`
(a parameter; hypothesis `oon²·(q·q) = 1` in the theorems).  Time dependence is carried by `Jet K = K[ε]/(ε²)`.
-/
namespace Mobilizer

structure V3 (K : Type) where
  x : K
  y : K
  z : K
deriving Repr

/-- row-major 3×3 matrix -/
structure M33 (K : Type) where
  xx : K
  xy : K
  xz : K
  yx : K
  yy : K
  yz : K
  zx : K
  zy : K
  zz : K
deriving Repr

/-- rigid transform `X_AB = (R_AB, p_AB)` -/
structure Xf (K : Type) where
  R : M33 K
  p : V3 K
deriving Repr

/-- spatial vector (angular, linear) -/
structure SV (K : Type) where
  w : V3 K
  v : V3 K
deriving Repr

/-- quaternion, scalar first (`q[0]` is the scalar as in `Quaternion_`) -/
structure Q4 (K : Type) where
  a : K
  b : K
  c : K
  d : K
deriving Repr

variable {K : Type}

section Algebra
variable [Add K] [Sub K] [Mul K] [Neg K]

namespace V3
def add (a b : V3 K) : V3 K := ⟨a.x + b.x, a.y + b.y, a.z + b.z⟩
def sub (a b : V3 K) : V3 K := ⟨a.x - b.x, a.y - b.y, a.z - b.z⟩
def neg (a : V3 K) : V3 K := ⟨-a.x, -a.y, -a.z⟩
def smul (s : K) (a : V3 K) : V3 K := ⟨s * a.x, s * a.y, s * a.z⟩
def dot (a b : V3 K) : K := a.x * b.x + a.y * b.y + a.z * b.z
/-- `a % b` -/
def cross (a b : V3 K) : V3 K := ⟨a.y * b.z - a.z * b.y, a.z * b.x - a.x * b.z, a.x * b.y - a.y * b.x⟩
/-- element-wise product (Ellipsoid: `semi[i]*n[i]`) -/
def emul (a b : V3 K) : V3 K := ⟨a.x * b.x, a.y * b.y, a.z * b.z⟩
end V3

namespace M33
def mul (A B : M33 K) : M33 K :=
  ⟨A.xx * B.xx + A.xy * B.yx + A.xz * B.zx, A.xx * B.xy + A.xy * B.yy + A.xz * B.zy, A.xx * B.xz + A.xy * B.yz + A.xz * B.zz,
   A.yx * B.xx + A.yy * B.yx + A.yz * B.zx, A.yx * B.xy + A.yy * B.yy + A.yz * B.zy, A.yx * B.xz + A.yy * B.yz + A.yz * B.zz,
   A.zx * B.xx + A.zy * B.yx + A.zz * B.zx, A.zx * B.xy + A.zy * B.yy + A.zz * B.zy, A.zx * B.xz + A.zy * B.yz + A.zz * B.zz⟩
def mulVec (A : M33 K) (v : V3 K) : V3 K :=
  ⟨A.xx * v.x + A.xy * v.y + A.xz * v.z, A.yx * v.x + A.yy * v.y + A.yz * v.z, A.zx * v.x + A.zy * v.y + A.zz * v.z⟩
/-- transpose (`~R`) -/
def tr (A : M33 K) : M33 K := ⟨A.xx, A.yx, A.zx, A.xy, A.yy, A.zy, A.xz, A.yz, A.zz⟩
def add (A B : M33 K) : M33 K :=
  ⟨A.xx + B.xx, A.xy + B.xy, A.xz + B.xz, A.yx + B.yx, A.yy + B.yy, A.yz + B.yz, A.zx + B.zx, A.zy + B.zy, A.zz + B.zz⟩
def sub (A B : M33 K) : M33 K :=
  ⟨A.xx - B.xx, A.xy - B.xy, A.xz - B.xz, A.yx - B.yx, A.yy - B.yy, A.yz - B.yz, A.zx - B.zx, A.zy - B.zy, A.zz - B.zz⟩
/-- columns (`R.x()`, `R.y()`, `R.z()`) -/
def col0 (A : M33 K) : V3 K := ⟨A.xx, A.yx, A.zx⟩
def col1 (A : M33 K) : V3 K := ⟨A.xy, A.yy, A.zy⟩
def col2 (A : M33 K) : V3 K := ⟨A.xz, A.yz, A.zz⟩
def ofCols (a b c : V3 K) : M33 K := ⟨a.x, b.x, c.x, a.y, b.y, c.y, a.z, b.z, c.z⟩
end M33

variable [OfNat K 0]

def V3.zero : V3 K := ⟨0, 0, 0⟩
/-- `crossMat(v)` -/
def M33.crossMat (v : V3 K) : M33 K := ⟨0, -v.z, v.y, v.z, 0, -v.x, -v.y, v.x, 0⟩

namespace SV
def zero : SV K := ⟨V3.zero, V3.zero⟩
def add (a b : SV K) : SV K := ⟨V3.add a.w b.w, V3.add a.v b.v⟩
def sub (a b : SV K) : SV K := ⟨V3.sub a.w b.w, V3.sub a.v b.v⟩
def neg (a : SV K) : SV K := ⟨V3.neg a.w, V3.neg a.v⟩
def smul (s : K) (a : SV K) : SV K := ⟨V3.smul s a.w, V3.smul s a.v⟩
def dot (a b : SV K) : K := V3.dot a.w b.w + V3.dot a.v b.v
/-- re-express both halves (`R * SpatialVec`) -/
def rot (R : M33 K) (a : SV K) : SV K := ⟨R.mulVec a.w, R.mulVec a.v⟩
end SV

/-- `H * u`: hinge matrix given by its columns -/
def Hmul : List (SV K) → List K → SV K
  | h :: hs, u :: us => SV.add (SV.smul u h) (Hmul hs us)
  | _, _ => SV.zero

variable [OfNat K 1]

def V3.ex : V3 K := ⟨1, 0, 0⟩
def V3.ey : V3 K := ⟨0, 1, 0⟩
def V3.ez : V3 K := ⟨0, 0, 1⟩
def M33.one : M33 K := ⟨1, 0, 0, 0, 1, 0, 0, 0, 1⟩

namespace Xf
def one : Xf K := ⟨M33.one, V3.zero⟩
/-- composition `X_AB * X_BC` -/
def mul (A B : Xf K) : Xf K := ⟨M33.mul A.R B.R, V3.add A.p (A.R.mulVec B.p)⟩
/-- inverse `~X` -/
def inv (A : Xf K) : Xf K := ⟨A.R.tr, V3.neg (A.R.tr.mulVec A.p)⟩
/-- station location `X * s` -/
def app (A : Xf K) (s : V3 K) : V3 K := V3.add A.p (A.R.mulVec s)
end Xf

/-! ## Rotation constructors, as coded in `Rotation.h/.cpp` -/

/-- `setRotationFromAngleAboutZ(c,s)` -/
def rotZ (c s : K) : M33 K := ⟨c, -s, 0, s, c, 0, 0, 0, 1⟩

/-- `setRotationToBodyFixedXYZ(c,s)` (18 flops form) -/
def rotXYZ (c0 c1 c2 s0 s1 s2 : K) : M33 K :=
  let s0s1 := s0 * s1; let s2c0 := s2 * c0; let c0c2 := c0 * c2; let nc1 := -c1
  ⟨c1 * c2, s2 * nc1, s1,
   s2c0 + s0s1 * c2, c0c2 - s0s1 * s2, s0 * nc1,
   s0 * s2 - s1 * c0c2, s0 * c2 + s1 * s2c0, c0 * c1⟩

/-- `Rotation(BodyRotationSequence, a1, XAxis, a2, YAxis)`:
`setTwoAngleTwoAxesBodyFixedForwardCyclicalRotation` with `i=X, j=Y, k=Z` -/
def rotXY (c1 s1 c2 s2 : K) : M33 K :=
  ⟨c2, 0, s2,
   s2 * s1, c1, -s1 * c2,
   -s2 * c1, s1, c1 * c2⟩

/-- `Rotation(BodyRotationSequence, az, ZAxis, ze, YAxis)`: Z→Y is reverse cyclical, so the routine negates both
angles (`cos` even, `sin` odd) and fills with `i=Z, j=Y, k=X`.  Arguments are cos/sin of the *given* angles. -/
def rotZY (ca sa cz sz : K) : M33 K :=
  let s1 := -sa; let s2 := -sz          -- sines of the negated angles
  ⟨ca * cz, s1, -s2 * ca,
   -s1 * cz, ca, s2 * s1,
   s2, 0, cz⟩

variable [OfNat K 2]

/-- `setRotationFromQuaternion(q)` (Rotation.cpp) -/
def rotQuat (q : Q4 K) : M33 K :=
  let q00 := q.a * q.a; let q11 := q.b * q.b; let q22 := q.c * q.c; let q33 := q.d * q.d
  let q01 := q.a * q.b; let q02 := q.a * q.c; let q03 := q.a * q.d
  let q12 := q.b * q.c; let q13 := q.b * q.d; let q23 := q.c * q.d
  let q00mq11 := q00 - q11; let q22mq33 := q22 - q33
  ⟨q00 + q11 - q22 - q33, 2 * (q12 - q03), 2 * (q13 + q02),
   2 * (q12 + q03), q00mq11 + q22mq33, 2 * (q23 - q01),
   2 * (q13 - q02), 2 * (q23 + q01), q00mq11 - q22mq33⟩

def Q4.smul (s : K) (q : Q4 K) : Q4 K := ⟨q.a * s, q.b * s, q.c * s, q.d * s⟩   -- `Vec4*oon`
def Q4.normSq (q : Q4 K) : K := q.a * q.a + q.b * q.b + q.c * q.c + q.d * q.d
def Q4.dot (p q : Q4 K) : K := p.a * q.a + p.b * q.b + p.c * q.c + p.d * q.d
def Q4.add (p q : Q4 K) : Q4 K := ⟨p.a + q.a, p.b + q.b, p.c + q.c, p.d + q.d⟩

/-! ## Documented elementary operations (used only by the `doc…` definitions) -/

/-- rotation by the angle with cosine `c`, sine `s` about the unit axis `a` (Rodrigues):
`c·I + s·[a]× + (1-c)·a aᵀ` -/
def rotAxis (a : V3 K) (c s : K) : M33 K :=
  let t := 1 - c
  ⟨c + t * a.x * a.x, t * a.x * a.y - s * a.z, t * a.x * a.z + s * a.y,
   t * a.y * a.x + s * a.z, c + t * a.y * a.y, t * a.y * a.z - s * a.x,
   t * a.z * a.x - s * a.y, t * a.z * a.y + s * a.x, c + t * a.z * a.z⟩

/-- Hamilton product -/
def Q4.hmul (p q : Q4 K) : Q4 K :=
  ⟨p.a * q.a - p.b * q.b - p.c * q.c - p.d * q.d,
   p.a * q.b + p.b * q.a + p.c * q.d - p.d * q.c,
   p.a * q.c - p.b * q.d + p.c * q.a + p.d * q.b,
   p.a * q.d + p.b * q.c - p.c * q.b + p.d * q.a⟩
def Q4.conj (q : Q4 K) : Q4 K := ⟨q.a, -q.b, -q.c, -q.d⟩
/-- the documented action of a unit quaternion on a vector: vector part of `e ⊗ (0,v) ⊗ e*` -/
def Q4.rotate (e : Q4 K) (v : V3 K) : V3 K :=
  let r := Q4.hmul (Q4.hmul e ⟨0, v.x, v.y, v.z⟩) (Q4.conj e)
  ⟨r.b, r.c, r.d⟩

/-! ## `N`, `NInv`, `NDot` helpers of `Rotation.h` -/

/-- `multiplyByBodyXYZ_N_P(cosxy, sinxy, oocosy, w)` : `qdot = N_P w` -/
def bodyXYZ_N_P (c0 s0 s1 ooc1 : K) (w : V3 K) : V3 K :=
  let t := (s0 * w.y - c0 * w.z) * ooc1
  ⟨w.x + t * s1, c0 * w.y + s0 * w.z, -t⟩

/-- `multiplyByBodyXYZ_NT_P` : `~N_P q` -/
def bodyXYZ_NT_P (c0 s0 s1 ooc1 : K) (q : V3 K) : V3 K :=
  let t := (q.x * s1 - q.z) * ooc1
  ⟨q.x, c0 * q.y + t * s0, s0 * q.y - t * c0⟩

/-- `multiplyByBodyXYZ_NInv_P` : `w = NInv_P qdot` -/
def bodyXYZ_NInv_P (c0 s0 c1 s1 : K) (qd : V3 K) : V3 K :=
  let c1q2 := c1 * qd.z
  ⟨qd.x + s1 * qd.z, c0 * qd.y - s0 * c1q2, s0 * qd.y + c0 * c1q2⟩

/-- `multiplyByBodyXYZ_NInvT_P` : `~NInv_P v` -/
def bodyXYZ_NInvT_P (c0 s0 c1 s1 : K) (v : V3 K) : V3 K :=
  ⟨v.x, c0 * v.y + s0 * v.z, s1 * v.x - s0 * c1 * v.y + c0 * c1 * v.z⟩

/-- `calcNDotForBodyXYZInParentFrame(cq, sq, ooc1, qdot)` -/
def bodyXYZ_NDot_P (c0 s0 s1 ooc1 : K) (qd : V3 K) : M33 K :=
  let s0oc1 := s0 * ooc1; let c0oc1 := c0 * ooc1
  let t := qd.y * s1 * ooc1
  let a := t * s0oc1 + qd.x * c0oc1
  let b := t * c0oc1 - qd.x * s0oc1
  ⟨0, s1 * a + qd.y * s0, -(s1 * b + qd.y * c0),
   0, -qd.x * s0, qd.x * c0,
   0, -a, b⟩

/-- `convertAngAccInParentToBodyXYZDotDot(cosxy, sinxy, oocosy, qdot, b)` -/
def bodyXYZ_qdotdot_P (c0 s0 c1 s1 ooc1 : K) (qd b : V3 K) : V3 K :=
  let Nb := bodyXYZ_N_P c0 s0 s1 ooc1 b
  let q1oc1 := qd.y * ooc1
  let NDotw : V3 K := ⟨(qd.x * s1 - qd.z) * q1oc1, qd.x * qd.z * c1, (qd.z * s1 - qd.x) * q1oc1⟩
  V3.add Nb NDotw

/-- `calcNForBodyXYZInBodyFrame(cq, sq)` (uses angles 1 and 2) -/
def bodyXYZ_N_B (s1 c2 s2 ooc1 : K) : M33 K :=
  let s2oc1 := s2 * ooc1; let c2oc1 := c2 * ooc1
  ⟨c2oc1, -s2oc1, 0,
   s2, c2, 0,
   -s1 * c2oc1, s1 * s2oc1, 1⟩

/-- `calcNInvForBodyXYZInBodyFrame(cq, sq)` -/
def bodyXYZ_NInv_B (c1 s1 c2 s2 : K) : M33 K :=
  ⟨c1 * c2, s2, 0,
   -c1 * s2, c2, 0,
   s1, 0, 1⟩

/-- `calcNDotForBodyXYZInBodyFrame(cq, sq, qdot)` -/
def bodyXYZ_NDot_B (c2 s2 s1 ooc1 : K) (qd : V3 K) : M33 K :=
  let s2oc1 := s2 * ooc1; let c2oc1 := c2 * ooc1
  let t := qd.y * s1 * ooc1
  let a := t * s2oc1 + qd.z * c2oc1
  let b := t * c2oc1 - qd.z * s2oc1
  ⟨b, -a, 0,
   qd.z * c2, -qd.z * s2, 0,
   -(s1 * b + qd.y * c2), s1 * a + qd.y * s2, 0⟩

end Algebra

section Quat
variable [Add K] [Sub K] [Mul K] [Neg K] [Div K] [OfNat K 0] [OfNat K 1] [OfNat K 2]

/-- `calcUnnormalizedNForQuaternion(q) * w` : `qdot = N(q) w`, `e = q/2` -/
def quat_N (q : Q4 K) (w : V3 K) : Q4 K :=
  let e0 := q.a / 2; let e1 := q.b / 2; let e2 := q.c / 2; let e3 := q.d / 2
  let ne1 := -e1; let ne2 := -e2; let ne3 := -e3
  ⟨ne1 * w.x + ne2 * w.y + ne3 * w.z,
   e0 * w.x + e3 * w.y + ne2 * w.z,
   ne3 * w.x + e0 * w.y + e1 * w.z,
   e2 * w.x + ne1 * w.y + e0 * w.z⟩

/-- `Row4 * calcUnnormalizedNForQuaternion(q)` : `~N(q) f` -/
def quat_NT (q : Q4 K) (f : Q4 K) : V3 K :=
  let e0 := q.a / 2; let e1 := q.b / 2; let e2 := q.c / 2; let e3 := q.d / 2
  let ne1 := -e1; let ne2 := -e2; let ne3 := -e3
  ⟨f.a * ne1 + f.b * e0 + f.c * ne3 + f.d * e2,
   f.a * ne2 + f.b * e3 + f.c * e0 + f.d * ne1,
   f.a * ne3 + f.b * ne2 + f.c * e1 + f.d * e0⟩

/-- `calcUnnormalizedNInvForQuaternion(q) * qdot`, `e = 2q` -/
def quat_NInv (q : Q4 K) (qd : Q4 K) : V3 K :=
  let e0 := 2 * q.a; let e1 := 2 * q.b; let e2 := 2 * q.c; let e3 := 2 * q.d
  let ne1 := -e1; let ne2 := -e2; let ne3 := -e3
  ⟨ne1 * qd.a + e0 * qd.b + ne3 * qd.c + e2 * qd.d,
   ne2 * qd.a + e3 * qd.b + e0 * qd.c + ne1 * qd.d,
   ne3 * qd.a + ne2 * qd.b + e1 * qd.c + e0 * qd.d⟩

/-- `Row3 * calcUnnormalizedNInvForQuaternion(q)` : `~NInv(q) v` -/
def quat_NInvT (q : Q4 K) (v : V3 K) : Q4 K :=
  let e0 := 2 * q.a; let e1 := 2 * q.b; let e2 := 2 * q.c; let e3 := 2 * q.d
  let ne1 := -e1; let ne2 := -e2; let ne3 := -e3
  ⟨v.x * ne1 + v.y * ne2 + v.z * ne3,
   v.x * e0 + v.y * e3 + v.z * ne2,
   v.x * ne3 + v.y * e0 + v.z * e1,
   v.x * e2 + v.y * ne1 + v.z * e0⟩

/-- `convertAngVelDotToQuaternionDotDot(q, w, b)` : `N b − ¼|w|² q` -/
def quat_qdotdot (q : Q4 K) (w b : V3 K) : Q4 K :=
  let Nb := quat_N q b
  let k := (-(1 / (2 * 2))) * V3.dot w w        -- Real(-.25)*w.normSqr()
  Q4.add Nb ⟨k * q.a, k * q.b, k * q.c, k * q.d⟩

end Quat

/-! ## Jets `K[ε]/(ε²)` -/

structure Jet (K : Type) where
  re : K
  eps : K
deriving Repr

namespace Jet
variable [Add K] [Sub K] [Mul K] [Neg K]
instance : Add (Jet K) := ⟨fun a b => ⟨a.re + b.re, a.eps + b.eps⟩⟩
instance : Sub (Jet K) := ⟨fun a b => ⟨a.re - b.re, a.eps - b.eps⟩⟩
instance : Mul (Jet K) := ⟨fun a b => ⟨a.re * b.re, a.re * b.eps + a.eps * b.re⟩⟩
instance : Neg (Jet K) := ⟨fun a => ⟨-a.re, -a.eps⟩⟩
instance [Div K] : Div (Jet K) := ⟨fun a b => ⟨a.re / b.re, (a.eps * b.re - a.re * b.eps) / (b.re * b.re)⟩⟩
instance [OfNat K 0] : OfNat (Jet K) 0 := ⟨⟨0, 0⟩⟩
instance [OfNat K 0] [OfNat K 1] : OfNat (Jet K) 1 := ⟨⟨1, 0⟩⟩
instance [OfNat K 0] [OfNat K 2] : OfNat (Jet K) 2 := ⟨⟨2, 0⟩⟩
/-- a constant -/
def const [OfNat K 0] (x : K) : Jet K := ⟨x, 0⟩
/-- a coordinate moving with rate `xd` -/
def var (x xd : K) : Jet K := ⟨x, xd⟩
/-- lift of `cos q` for `q` moving with rate `qd` (definition of the convention `ċ = −s q̇`) -/
def cosL (c s qd : K) : Jet K := ⟨c, -(s * qd)⟩
/-- lift of `sin q` (`ṡ = c q̇`) -/
def sinL (c s qd : K) : Jet K := ⟨s, c * qd⟩
/-- lift of `1/cos q` : `d(1/c) = s q̇ / c²` -/
def oocosL (s ooc qd : K) : Jet K := ⟨ooc, s * qd * ooc * ooc⟩
/-- lift of `r = 1/√x` given the jet of `x` : `ṙ = −r³ ẋ / 2` -/
def invSqrtL [Div K] [OfNat K 2] (x : Jet K) (r : K) : Jet K := ⟨r, -(r * r * r * x.eps) / 2⟩
end Jet

namespace V3
def re (v : V3 (Jet K)) : V3 K := ⟨v.x.re, v.y.re, v.z.re⟩
def eps (v : V3 (Jet K)) : V3 K := ⟨v.x.eps, v.y.eps, v.z.eps⟩
def const [OfNat K 0] (v : V3 K) : V3 (Jet K) := ⟨Jet.const v.x, Jet.const v.y, Jet.const v.z⟩
def var (v vd : V3 K) : V3 (Jet K) := ⟨⟨v.x, vd.x⟩, ⟨v.y, vd.y⟩, ⟨v.z, vd.z⟩⟩
end V3
namespace M33
def re (A : M33 (Jet K)) : M33 K := ⟨A.xx.re, A.xy.re, A.xz.re, A.yx.re, A.yy.re, A.yz.re, A.zx.re, A.zy.re, A.zz.re⟩
def eps (A : M33 (Jet K)) : M33 K := ⟨A.xx.eps, A.xy.eps, A.xz.eps, A.yx.eps, A.yy.eps, A.yz.eps, A.zx.eps, A.zy.eps, A.zz.eps⟩
def const [OfNat K 0] (A : M33 K) : M33 (Jet K) :=
  ⟨Jet.const A.xx, Jet.const A.xy, Jet.const A.xz, Jet.const A.yx, Jet.const A.yy, Jet.const A.yz,
   Jet.const A.zx, Jet.const A.zy, Jet.const A.zz⟩
/-- a matrix moving with rate `Ad` -/
def var (A Ad : M33 K) : M33 (Jet K) :=
  ⟨⟨A.xx, Ad.xx⟩, ⟨A.xy, Ad.xy⟩, ⟨A.xz, Ad.xz⟩, ⟨A.yx, Ad.yx⟩, ⟨A.yy, Ad.yy⟩, ⟨A.yz, Ad.yz⟩,
   ⟨A.zx, Ad.zx⟩, ⟨A.zy, Ad.zy⟩, ⟨A.zz, Ad.zz⟩⟩
end M33
namespace Xf
def re (X : Xf (Jet K)) : Xf K := ⟨X.R.re, X.p.re⟩
def const [OfNat K 0] (X : Xf K) : Xf (Jet K) := ⟨M33.const X.R, V3.const X.p⟩
end Xf
namespace SV
def re (V : SV (Jet K)) : SV K := ⟨V.w.re, V.v.re⟩
def eps (V : SV (Jet K)) : SV K := ⟨V.w.eps, V.v.eps⟩
def var (V Vd : SV K) : SV (Jet K) := ⟨V3.var V.w Vd.w, V3.var V.v Vd.v⟩
end SV
def Q4.var (q qd : Q4 K) : Q4 (Jet K) := ⟨⟨q.a, qd.a⟩, ⟨q.b, qd.b⟩, ⟨q.c, qd.c⟩, ⟨q.d, qd.d⟩⟩

/-! ## Joint-independent machinery of `RigidBodyNodeSpec` / `RigidBodyNode` -/
section Generic
variable [Add K] [Sub K] [Mul K] [Neg K] [OfNat K 0] [OfNat K 1]

/-- `RigidBodyNode::reverseSpatialVelocity(X_AB, V_AB) = ~R_AB * (−w_AB, w_AB % p_AB − v_AB)` -/
def reverseSpatialVelocity (X : Xf K) (V : SV K) : SV K :=
  SV.rot X.R.tr ⟨V3.neg V.w, V3.sub (V3.cross V.w X.p) V.v⟩

/-- `RigidBodyNode::reverseAngularVelocity(R_AB, w_AB) = ~R_AB * (−w_AB)` -/
def reverseAngularVelocity (R : M33 K) (w : V3 K) : V3 K := R.tr.mulVec (V3.neg w)

/-- default `calcReverseMobilizerH_FM` (RigidBodyNodeSpec.cpp), one column:
`H_FM_w = −(R_FM H_MF_w)`, `H_FM_v = ~crossMat(p_FM) H_FM_w − R_FM H_MF_v`; `X_FM` is the already reversed transform -/
def reverseHCol (X_FM : Xf K) (h : SV K) : SV K :=
  let w := V3.neg (X_FM.R.mulVec h.w)
  ⟨w, V3.sub ((M33.crossMat X_FM.p).tr.mulVec w) (X_FM.R.mulVec h.v)⟩
def reverseH (X_FM : Xf K) (H_MF : List (SV K)) : List (SV K) := H_MF.map (reverseHCol X_FM)

/-- default `calcReverseMobilizerHDot_FM`, one column (needs the matching `H_FM` column) -/
def reverseHDotCol (X_FM : Xf K) (V_FM : SV K) (hFM : SV K) (hdMF : SV K) : SV K :=
  let pX := M33.crossMat X_FM.p
  let wX := M33.crossMat V_FM.w
  let vX := M33.crossMat V_FM.v
  let vwp := M33.sub vX (M33.mul wX pX)
  let w := V3.sub (wX.mulVec hFM.w) (X_FM.R.mulVec hdMF.w)
  let v := V3.sub (wX.mulVec hFM.v) (X_FM.R.mulVec hdMF.v)
  ⟨w, V3.sub v (V3.add (pX.mulVec w) (vwp.mulVec hFM.w))⟩
def reverseHDot (X_FM : Xf K) (V_FM : SV K) : List (SV K) → List (SV K) → List (SV K)
  | h :: hs, hd :: hds => reverseHDotCol X_FM V_FM h hd :: reverseHDot X_FM V_FM hs hds
  | _, _ => []

/-- `calcBodyTransforms`: `X_FB = X_FM*X_MB`, `X_PB = X_PF*X_FB`, `X_GB = X_GP*X_PB` -/
def X_PB (X_PF X_FM X_MB : Xf K) : Xf K := Xf.mul X_PF (Xf.mul X_FM X_MB)
def X_GB (X_GP X_PF X_FM X_MB : Xf K) : Xf K := Xf.mul X_GP (X_PB X_PF X_FM X_MB)

/-- `calcParentToChildVelocityJacobianInGround`, one column (general branch):
`R_GF * (H_FM + (0, −r_MB_F % H_FM_w))`, `r_MB_F = R_FM * p_MB` -/
def H_PB_G_col (R_GP : M33 K) (X_PF X_FM X_MB : Xf K) (h : SV K) : SV K :=
  let R_GF := M33.mul R_GP X_PF.R
  let r_MB_F := X_FM.R.mulVec X_MB.p
  SV.rot R_GF ⟨h.w, V3.add h.v (V3.cross (V3.neg r_MB_F) h.w)⟩
def H_PB_G (R_GP : M33 K) (X_PF X_FM X_MB : Xf K) (H_FM : List (SV K)) : List (SV K) :=
  H_FM.map (H_PB_G_col R_GP X_PF X_FM X_MB)

/-- `calcParentToChildVelocityJacobianInGroundDot`, one column (general branch) -/
def HDot_PB_G_col (R_GP : M33 K) (w_GP : V3 K) (X_PF X_FM X_MB : Xf K) (w_FM : V3 K)
    (h hd hG : SV K) : SV K :=
  let R_GF := M33.mul R_GP X_PF.R
  let r_MB_F := X_FM.R.mulVec X_MB.p
  let hdMB : V3 K := V3.sub (V3.cross (V3.neg r_MB_F) hd.w) (V3.cross (V3.cross w_FM r_MB_F) h.w)
  SV.add (SV.rot R_GF ⟨hd.w, V3.add hd.v hdMB⟩) ⟨V3.cross w_GP hG.w, V3.cross w_GP hG.v⟩
def HDot_PB_G (R_GP : M33 K) (w_GP : V3 K) (X_PF X_FM X_MB : Xf K) (w_FM : V3 K) :
    List (SV K) → List (SV K) → List (SV K) → List (SV K)
  | h :: hs, hd :: hds, hG :: hGs =>
      HDot_PB_G_col R_GP w_GP X_PF X_FM X_MB w_FM h hd hG :: HDot_PB_G R_GP w_GP X_PF X_FM X_MB w_FM hs hds hGs
  | _, _, _ => []

/-- `~Phi * V_GP` : `(w, v + w % p_PB_G)` -/
def phiT (p_PB_G : V3 K) (V : SV K) : SV K := ⟨V.w, V3.add V.v (V3.cross V.w p_PB_G)⟩

/-- `calcJointIndependentKinematicsVel`: `V_GB = ~Phi*V_GP + H*u`, `p_PB_G = R_GP * p_PB` -/
def V_GB (X_GP : Xf K) (V_GP : SV K) (X_PBv : Xf K) (V_PB_G : SV K) : SV K :=
  SV.add (phiT (X_GP.R.mulVec X_PBv.p) V_GP) V_PB_G

/-- mobilizer Coriolis acceleration `A = (VD.w, VD.v + w_GP % (v_GB − v_GP))` -/
def coriolisA (V_GP V_GBv VD_PB_G : SV K) : SV K :=
  ⟨VD_PB_G.w, V3.add VD_PB_G.v (V3.cross V_GP.w (V3.sub V_GBv.v V_GP.v))⟩

/-- `findStationVelocityInGround`: `v_GB + w_GB % (R_GB * s)` -/
def stationVel (X_GBv : Xf K) (V_GBv : SV K) (s : V3 K) : V3 K :=
  V3.add V_GBv.v (V3.cross V_GBv.w (X_GBv.R.mulVec s))

end Generic

/-! ## The mobilizer types, in the frames in which they are *defined* (`F0`,`M0`) -/

section Types
variable [Add K] [Sub K] [Mul K] [Neg K] [OfNat K 0] [OfNat K 1]

namespace Pin
def X (c s : K) : Xf K := ⟨rotZ c s, V3.zero⟩
def H : List (SV K) := [⟨V3.ez, V3.zero⟩]
def Hrev : List (SV K) := [⟨⟨0, 0, -1⟩, V3.zero⟩]
def HDot : List (SV K) := [SV.zero]
/-- documented: rotation by `q` about the common z axis, origins coincident -/
def docX (c s : K) : Xf K := ⟨rotAxis V3.ez c s, V3.zero⟩
/-- `setUToFitAngularVelocityImpl` (linear part does nothing) -/
def fitU (V : SV K) : List K := [V.w.z]
end Pin

namespace Slider
def X (q : K) : Xf K := ⟨M33.one, ⟨q, 0, 0⟩⟩
def H : List (SV K) := [⟨V3.zero, V3.ex⟩]
def Hrev : List (SV K) := [⟨V3.zero, ⟨-1, 0, 0⟩⟩]
def HDot : List (SV K) := [SV.zero]
/-- documented: translation by `q` along the common x axis -/
def docX (q : K) : Xf K := ⟨M33.one, V3.smul q V3.ex⟩
def fitQ (X : Xf K) : K := X.p.x
def fitU (V : SV K) : List K := [V.v.x]
end Slider

namespace Cylinder
def X (c s q1 : K) : Xf K := ⟨rotZ c s, ⟨0, 0, q1⟩⟩
def H : List (SV K) := [⟨V3.ez, V3.zero⟩, ⟨V3.zero, V3.ez⟩]
def Hrev : List (SV K) := [⟨⟨0, 0, -1⟩, V3.zero⟩, ⟨V3.zero, ⟨0, 0, -1⟩⟩]
def HDot : List (SV K) := [SV.zero, SV.zero]
def docX (c s q1 : K) : Xf K := ⟨rotAxis V3.ez c s, V3.smul q1 V3.ez⟩
def fitU (V : SV K) : List K := [V.w.z, V.v.z]
end Cylinder

namespace Screw
def X (pitch c s q : K) : Xf K := ⟨rotZ c s, ⟨0, 0, q * pitch⟩⟩
def H (pitch : K) : List (SV K) := [⟨V3.ez, ⟨0, 0, pitch⟩⟩]
def Hrev (pitch : K) : List (SV K) := [⟨⟨0, 0, -1⟩, ⟨0, 0, -pitch⟩⟩]
def HDot : List (SV K) := [SV.zero]
/-- documented: rotation `q` about z, translation always `pitch*q` along z -/
def docX (pitch c s q : K) : Xf K := ⟨rotAxis V3.ez c s, V3.smul (pitch * q) V3.ez⟩
end Screw

namespace Translation
def X (q : V3 K) : Xf K := ⟨M33.one, q⟩
def H : List (SV K) := [⟨V3.zero, V3.ex⟩, ⟨V3.zero, V3.ey⟩, ⟨V3.zero, V3.ez⟩]
def Hrev : List (SV K) := [⟨V3.zero, ⟨-1, 0, 0⟩⟩, ⟨V3.zero, ⟨0, -1, 0⟩⟩, ⟨V3.zero, ⟨0, 0, -1⟩⟩]
def HDot : List (SV K) := [SV.zero, SV.zero, SV.zero]
def docX (q : V3 K) : Xf K :=
  ⟨M33.one, V3.add (V3.add (V3.smul q.x V3.ex) (V3.smul q.y V3.ey)) (V3.smul q.z V3.ez)⟩
def fitQ (X : Xf K) : V3 K := X.p
def fitU (V : SV K) : List K := [V.v.x, V.v.y, V.v.z]
end Translation

namespace Planar
def X (c s x y : K) : Xf K := ⟨rotZ c s, ⟨x, y, 0⟩⟩
def H : List (SV K) := [⟨V3.ez, V3.zero⟩, ⟨V3.zero, V3.ex⟩, ⟨V3.zero, V3.ey⟩]
def HDot : List (SV K) := [SV.zero, SV.zero, SV.zero]
/-- documented: rotation about the shared z, translation along F's x and F's y -/
def docX (c s x y : K) : Xf K := ⟨rotAxis V3.ez c s, V3.add (V3.smul x V3.ex) (V3.smul y V3.ey)⟩
def fitU (V : SV K) : List K := [V.w.z, V.v.x, V.v.y]
end Planar

namespace BendStretch
def X (c s r : K) : Xf K := let R := rotZ c s; ⟨R, R.mulVec ⟨r, 0, 0⟩⟩
/-- `H_FM(0) = (z, z % p_FM)`, `H_FM(1) = (0, Mx_F)` from `X_F0M0` -/
def H (X0 : Xf K) : List (SV K) := [⟨V3.ez, V3.cross V3.ez X0.p⟩, ⟨V3.zero, X0.R.col0⟩]
def HDot (X0 : Xf K) (V0 : SV K) : List (SV K) :=
  [⟨V3.zero, V3.cross V3.ez V0.v⟩, ⟨V3.zero, V3.cross V0.w X0.R.col0⟩]
/-- documented: first rotate about z, then slide by `r` along the *rotated* x axis of M -/
def docX (c s r : K) : Xf K := let R := rotAxis V3.ez c s; ⟨R, V3.smul r (R.mulVec V3.ex)⟩
end BendStretch

namespace Universal
def X (c0 s0 c1 s1 : K) : Xf K := ⟨rotXY c0 s0 c1 s1, V3.zero⟩
def H (X0 : Xf K) : List (SV K) := [⟨V3.ex, V3.zero⟩, ⟨X0.R.col1, V3.zero⟩]
def HDot (X0 : Xf K) (w0 : V3 K) : List (SV K) := [SV.zero, ⟨V3.cross w0 X0.R.col1, V3.zero⟩]
/-- documented: rotation about x, followed by a rotation about the new y -/
def docX (c0 s0 c1 s1 : K) : Xf K := ⟨M33.mul (rotAxis V3.ex c0 s0) (rotAxis V3.ey c1 s1), V3.zero⟩
/-- `setUToFitAngularVelocityImpl`: `(w.x, (~R_FM * (0,w.y,w.z)).y)` -/
def fitU (X0 : Xf K) (V : SV K) : List K := [V.w.x, (X0.R.tr.mulVec ⟨0, V.w.y, V.w.z⟩).y]
end Universal

namespace Gimbal
def X (c0 c1 c2 s0 s1 s2 : K) : Xf K := ⟨rotXYZ c0 c1 c2 s0 s1 s2, V3.zero⟩
def Hw (c0 c1 s0 s1 : K) : List (V3 K) := [⟨1, 0, 0⟩, ⟨0, c0, s0⟩, ⟨s1, -s0 * c1, c0 * c1⟩]
def H (c0 c1 s0 s1 : K) : List (SV K) := (Hw c0 c1 s0 s1).map (fun w => ⟨w, V3.zero⟩)
def HDotw (c0 c1 s0 s1 qd0 qd1 : K) : List (V3 K) :=
  let dc0 := -s0 * qd0; let dc1 := -s1 * qd1
  let ds0 := c0 * qd0; let ds1 := c1 * qd1
  [⟨0, 0, 0⟩, ⟨0, dc0, ds0⟩, ⟨ds1, -ds0 * c1 - s0 * dc1, dc0 * c1 + c0 * dc1⟩]
def HDot (c0 c1 s0 s1 qd0 qd1 : K) : List (SV K) := (HDotw c0 c1 s0 s1 qd0 qd1).map (fun w => ⟨w, V3.zero⟩)
/-- documented: q0 about x, then q1 about the now-rotated y, then q2 about the twice-rotated z -/
def docR (c0 c1 c2 s0 s1 s2 : K) : M33 K :=
  M33.mul (M33.mul (rotAxis V3.ex c0 s0) (rotAxis V3.ey c1 s1)) (rotAxis V3.ez c2 s2)
def docX (c0 c1 c2 s0 s1 s2 : K) : Xf K := ⟨docR c0 c1 c2 s0 s1 s2, V3.zero⟩
/-- `setUToFitAngularVelocityImpl`: `qdot = N_P w` -/
def fitU (c0 s0 s1 ooc1 : K) (V : SV K) : List K :=
  let qd := bodyXYZ_N_P c0 s0 s1 ooc1 V.w; [qd.x, qd.y, qd.z]
end Gimbal

namespace Bushing
def X (c0 c1 c2 s0 s1 s2 : K) (p : V3 K) : Xf K := ⟨rotXYZ c0 c1 c2 s0 s1 s2, p⟩
def H (c0 c1 s0 s1 : K) : List (SV K) :=
  Gimbal.H c0 c1 s0 s1 ++ [⟨V3.zero, V3.ex⟩, ⟨V3.zero, V3.ey⟩, ⟨V3.zero, V3.ez⟩]
def HDot (c0 c1 s0 s1 qd0 qd1 : K) : List (SV K) :=
  Gimbal.HDot c0 c1 s0 s1 qd0 qd1 ++ [SV.zero, SV.zero, SV.zero]
/-- documented: first translate M by `p` (in F), then reorient about the new origin by the x-y-z body-fixed angles -/
def docX (c0 c1 c2 s0 s1 s2 : K) (p : V3 K) : Xf K :=
  Xf.mul ⟨M33.one, p⟩ ⟨Gimbal.docR c0 c1 c2 s0 s1 s2, V3.zero⟩
def fitU (c0 s0 s1 ooc1 : K) (V : SV K) : List K := Gimbal.fitU c0 s0 s1 ooc1 V ++ [V.v.x, V.v.y, V.v.z]
end Bushing

namespace Ball
variable [OfNat K 2]
/-- quaternion mode: normalise (`q*oon`) then `setRotationFromQuaternion` -/
def Xq (q : Q4 K) (oon : K) : Xf K := ⟨rotQuat (Q4.smul oon q), V3.zero⟩
/-- Euler mode: body-fixed XYZ -/
def Xe (c0 c1 c2 s0 s1 s2 : K) : Xf K := Gimbal.X c0 c1 c2 s0 s1 s2
def H : List (SV K) := [⟨V3.ex, V3.zero⟩, ⟨V3.ey, V3.zero⟩, ⟨V3.ez, V3.zero⟩]
def HDot : List (SV K) := [SV.zero, SV.zero, SV.zero]
/-- documented (quaternion): the rotation `v ↦ e v e*` of the normalised quaternion `e = q/|q|` -/
def docRq (q : Q4 K) (oon : K) : M33 K :=
  let e := Q4.smul oon q
  M33.ofCols (Q4.rotate e V3.ex) (Q4.rotate e V3.ey) (Q4.rotate e V3.ez)
def docXq (q : Q4 K) (oon : K) : Xf K := ⟨docRq q oon, V3.zero⟩
def fitU (V : SV K) : List K := [V.w.x, V.w.y, V.w.z]
end Ball

namespace Free
variable [OfNat K 2]
def Xq (q : Q4 K) (oon : K) (p : V3 K) : Xf K := ⟨rotQuat (Q4.smul oon q), p⟩
def Xe (c0 c1 c2 s0 s1 s2 : K) (p : V3 K) : Xf K := ⟨rotXYZ c0 c1 c2 s0 s1 s2, p⟩
def H : List (SV K) := Ball.H ++ [⟨V3.zero, V3.ex⟩, ⟨V3.zero, V3.ey⟩, ⟨V3.zero, V3.ez⟩]
def HDot : List (SV K) := [SV.zero, SV.zero, SV.zero, SV.zero, SV.zero, SV.zero]
/-- documented: orientation as Ball; translation x,y,z along the F axes -/
def docXq (q : Q4 K) (oon : K) (p : V3 K) : Xf K := Xf.mul ⟨M33.one, p⟩ (Ball.docXq q oon)
def docXe (c0 c1 c2 s0 s1 s2 : K) (p : V3 K) : Xf K := Bushing.docX c0 c1 c2 s0 s1 s2 p
def fitU (V : SV K) : List K := [V.w.x, V.w.y, V.w.z, V.v.x, V.v.y, V.v.z]
end Free

namespace Ellipsoid
/-- `p = semi .* Mz_F` for a given rotation -/
def Xof (semi : V3 K) (R : M33 K) : Xf K := ⟨R, V3.emul semi R.col2⟩
/-- `H_FM` from the normal `n = Mz_F` of `X_F0M0` -/
def H (semi : V3 K) (n : V3 K) : List (SV K) :=
  [⟨V3.ex, ⟨0, -n.z * semi.y, n.y * semi.z⟩⟩,
   ⟨V3.ey, ⟨n.z * semi.x, 0, -n.x * semi.z⟩⟩,
   ⟨V3.ez, ⟨-n.y * semi.x, n.x * semi.y, 0⟩⟩]
def HDot (semi : V3 K) (n w0 : V3 K) : List (SV K) :=
  let nd := V3.cross w0 n
  [⟨V3.zero, ⟨0, -nd.z * semi.y, nd.y * semi.z⟩⟩,
   ⟨V3.zero, ⟨nd.z * semi.x, 0, -nd.x * semi.z⟩⟩,
   ⟨V3.zero, ⟨-nd.y * semi.x, nd.x * semi.y, 0⟩⟩]
/-- the documented constraint: `Mo` lies on the ellipsoid `Σ (p_i/semi_i)² = 1`, written without division -/
def onSurface (semi p : V3 K) : K :=
  p.x * p.x * (semi.y * semi.y * semi.z * semi.z) + p.y * p.y * (semi.x * semi.x * semi.z * semi.z)
    + p.z * p.z * (semi.x * semi.x * semi.y * semi.y)
end Ellipsoid

namespace SphericalCoords
/-- cos/sin of `sign*q + off` from cos/sin of `q` and of the offset (`sign = ±1`) -/
def shiftC (sg cq sq co so : K) : K := cq * co - sg * sq * so
def shiftS (sg cq sq co so : K) : K := sg * sq * co + cq * so
structure Par (K : Type) where
  caz0 : K
  saz0 : K
  cze0 : K
  sze0 : K
  sgAz : K
  sgZe : K
  sgT : K
  /-- translation axis: `true` = Mx, `false` = Mz -/
  axisX : Bool
def axisOf (P : Par K) (R : M33 K) : V3 K := if P.axisX then R.col0 else R.col2
def R (P : Par K) (c0 s0 c1 s1 : K) : M33 K :=
  rotZY (shiftC P.sgAz c0 s0 P.caz0 P.saz0) (shiftS P.sgAz c0 s0 P.caz0 P.saz0)
        (shiftC P.sgZe c1 s1 P.cze0 P.sze0) (shiftS P.sgZe c1 s1 P.cze0 P.sze0)
def X (P : Par K) (c0 s0 c1 s1 q2 : K) : Xf K :=
  let Rm := R P c0 s0 c1 s1
  ⟨Rm, V3.smul (P.sgT * q2) (axisOf P Rm)⟩
def H (P : Par K) (X0 : Xf K) : List (SV K) :=
  let sFz : V3 K := ⟨0, 0, P.sgAz⟩
  let sMy := V3.smul P.sgZe X0.R.col1
  let sMt := V3.smul P.sgT (axisOf P X0.R)
  let sFzXp : V3 K := ⟨-sFz.z * X0.p.y, sFz.z * X0.p.x, 0⟩
  [⟨sFz, sFzXp⟩, ⟨sMy, V3.cross sMy X0.p⟩, ⟨V3.zero, sMt⟩]
def HDot (P : Par K) (X0 : Xf K) (V0 : SV K) : List (SV K) :=
  let sFz : V3 K := ⟨0, 0, P.sgAz⟩
  let sMy := V3.smul P.sgZe X0.R.col1
  let sMt := V3.smul P.sgT (axisOf P X0.R)
  let dsMy := V3.cross V0.w sMy
  let dsMt := V3.cross V0.w sMt
  let sFzXv : V3 K := ⟨-sFz.z * V0.v.y, sFz.z * V0.v.x, 0⟩
  [⟨V3.zero, sFzXv⟩, ⟨dsMy, V3.add (V3.cross dsMy X0.p) (V3.cross sMy V0.v)⟩, ⟨V3.zero, dsMt⟩]
/-- documented: body-fixed z-y rotation by (azimuth, zenith) then translation by the radius along body z or x -/
def docX (P : Par K) (c0 s0 c1 s1 q2 : K) : Xf K :=
  let Rm := M33.mul (rotAxis V3.ez (shiftC P.sgAz c0 s0 P.caz0 P.saz0) (shiftS P.sgAz c0 s0 P.caz0 P.saz0))
                    (rotAxis V3.ey (shiftC P.sgZe c1 s1 P.cze0 P.sze0) (shiftS P.sgZe c1 s1 P.cze0 P.sze0))
  ⟨Rm, V3.smul (P.sgT * q2) (Rm.mulVec (if P.axisX then V3.ex else V3.ez))⟩
end SphericalCoords

namespace LineOrientation
def H (X0 : Xf K) : List (SV K) := [⟨X0.R.col0, V3.zero⟩, ⟨X0.R.col1, V3.zero⟩]
def HDot (X0 : Xf K) (w0 : V3 K) : List (SV K) :=
  [⟨V3.cross w0 X0.R.col0, V3.zero⟩, ⟨V3.cross w0 X0.R.col1, V3.zero⟩]
/-- `setUToFitAngularVelocityImpl`: x,y of `~R_FM * w_FM` -/
def fitU (X0 : Xf K) (V : SV K) : List K := let wM := X0.R.tr.mulVec V.w; [wM.x, wM.y]
end LineOrientation

namespace FreeLine
def H (X0 : Xf K) : List (SV K) :=
  LineOrientation.H X0 ++ [⟨V3.zero, V3.ex⟩, ⟨V3.zero, V3.ey⟩, ⟨V3.zero, V3.ez⟩]
def HDot (X0 : Xf K) (w0 : V3 K) : List (SV K) := LineOrientation.HDot X0 w0 ++ [SV.zero, SV.zero, SV.zero]
def fitU (X0 : Xf K) (V : SV K) : List K := LineOrientation.fitU X0 V ++ [V.v.x, V.v.y, V.v.z]
end FreeLine

namespace Cantilever
variable [OfNat K 2]
/-- `defl = (2/3)·L`, `disp = (4/15)·L` are precomputed in the constructor -/
def X (L defl disp c0 c1 c2 s0 s1 s2 q0 q1 : K) : Xf K :=
  ⟨rotXYZ c0 c1 c2 s0 s1 s2, ⟨q1 * defl, -q0 * defl, L - disp * (q0 * q0 + q1 * q1)⟩⟩
def H (defl disp c0 c1 s0 s1 q0 q1 : K) : List (SV K) :=
  [⟨⟨1, 0, 0⟩, ⟨0, -defl, -(2 * disp * q0)⟩⟩,
   ⟨⟨0, c0, s0⟩, ⟨defl, 0, -(2 * disp * q1)⟩⟩,
   ⟨⟨s1, -s0 * c1, c0 * c1⟩, V3.zero⟩]
def HDot (disp c0 c1 s0 s1 qd0 qd1 : K) : List (SV K) :=
  let dc0 := -s0 * qd0; let dc1 := -s1 * qd1
  let ds0 := c0 * qd0; let ds1 := c1 * qd1
  [⟨⟨0, 0, 0⟩, ⟨0, 0, -(2 * disp * qd0)⟩⟩,
   ⟨⟨0, dc0, ds0⟩, ⟨0, 0, -(2 * disp * qd1)⟩⟩,
   ⟨⟨ds1, -ds0 * c1 - s0 * dc1, dc0 * c1 + c0 * dc1⟩, V3.zero⟩]
/-- documented: body-fixed x-y-z angles; `p = (⅔ q₁ L, −⅔ q₀ L, L − 4⁄15 (q₀²+q₁²) L)`
(stated with `defl`, `disp` constrained by `3·defl = 2·L`, `15·disp = 4·L` in the theorem) -/
def docX (L defl disp c0 c1 c2 s0 s1 s2 q0 q1 : K) : Xf K :=
  ⟨Gimbal.docR c0 c1 c2 s0 s1 s2, ⟨defl * q1, -(defl * q0), L - disp * (q0 * q0 + q1 * q1)⟩⟩
end Cantilever

end Types


/-! ## `realizePosition` / `realizeVelocity` of `RigidBodyNodeSpec` (reversal handling) -/
section Realize
variable [Add K] [Sub K] [Mul K] [Neg K] [OfNat K 0] [OfNat K 1]

/-- `realizePosition`: a reversed mobilizer stores `~X_MF` where `X_MF = calcX_FM(q)` -/
def realizeX (rev : Bool) (X0 : Xf K) : Xf K := if rev then Xf.inv X0 else X0
/-- `findX_F0M0` -/
def findX_F0M0 (rev : Bool) (X_FM : Xf K) : Xf K := if rev then Xf.inv X_FM else X_FM
/-- `findV_F0M0` -/
def findV_F0M0 (rev : Bool) (X_FM : Xf K) (V_FM : SV K) : SV K :=
  if rev then reverseSpatialVelocity X_FM V_FM else V_FM
/-- `H_FM`: forward = as defined; reversed = the type's override if it has one, else the default reversal -/
def realizeH (rev : Bool) (X_FM : Xf K) (H0 : List (SV K)) (Hover : Option (List (SV K))) : List (SV K) :=
  if rev then (match Hover with | some h => h | none => reverseH X_FM H0) else H0
def realizeHDot (rev : Bool) (X_FM : Xf K) (V_FM : SV K) (H_FM HDot0 : List (SV K))
    (over : Option (List (SV K))) : List (SV K) :=
  if rev then (match over with | some h => h | none => reverseHDot X_FM V_FM H_FM HDot0) else HDot0
end Realize

/-! ## Dispatch over the built-in types (used by the drivers; theorems are stated on the per-type definitions) -/

inductive MobType
  | pin | slider | cylinder | bendStretch | universal | planar | gimbal | bushing | ball | free
  | translation | screw | sphericalCoords | ellipsoid | lineOrientation | freeLine | weld | cantilever
deriving DecidableEq, Repr, Inhabited

/-- everything the formulas read from the q-pool: raw `q`, `cos q[i]`, `sin q[i]`, `1/|quat|`, `1/cos q[1]` -/
structure Coords (K : Type) where
  q : List K
  c : List K
  s : List K
  oon : K
  ooc1 : K

structure Spec (K : Type) where
  ty : MobType
  euler : Bool
  /-- Screw: `[pitch]`; Ellipsoid: radii; Cantilever: `[L, (2/3)L, (4/15)L]`; SphericalCoords: `[cos az0, sin az0, cos ze0, sin ze0, sgAz, sgZe, sgT]` -/
  par : List K
  axisX : Bool

section Dispatch
variable [Add K] [Sub K] [Mul K] [Neg K] [Div K] [OfNat K 0] [OfNat K 1] [OfNat K 2]

private def g (l : List K) (i : Nat) : K := l.getD i 0
private def v3at (l : List K) (i : Nat) : V3 K := ⟨g l i, g l (i+1), g l (i+2)⟩
private def l3 (v : V3 K) : List K := [v.x, v.y, v.z]
private def l4 (q : Q4 K) : List K := [q.a, q.b, q.c, q.d]
def Coords.quat (C : Coords K) : Q4 K := ⟨g C.q 0, g C.q 1, g C.q 2, g C.q 3⟩
def Spec.sph (S : Spec K) : SphericalCoords.Par K :=
  ⟨g S.par 0, g S.par 1, g S.par 2, g S.par 3, g S.par 4, g S.par 5, g S.par 6, S.axisX⟩

def MobType.usesQuat : MobType → Bool
  | .ball | .free | .ellipsoid | .lineOrientation | .freeLine => true
  | _ => false
def Spec.quatInUse (S : Spec K) : Bool := S.ty.usesQuat && !S.euler

def Spec.nu (S : Spec K) : Nat :=
  match S.ty with
  | .pin | .slider | .screw => 1
  | .cylinder | .bendStretch | .universal | .lineOrientation => 2
  | .planar | .gimbal | .ball | .translation | .sphericalCoords | .ellipsoid | .cantilever => 3
  | .freeLine => 5
  | .bushing | .free => 6
  | .weld => 0
def Spec.nq (S : Spec K) : Nat :=
  match S.ty with
  | .ball | .ellipsoid | .lineOrientation => if S.euler then 3 else 4
  | .free | .freeLine => if S.euler then 6 else 7
  | _ => S.nu

/-- rotation of the quaternion-capable types -/
def Spec.ballR (S : Spec K) (C : Coords K) : M33 K :=
  if S.euler then rotXYZ (g C.c 0) (g C.c 1) (g C.c 2) (g C.s 0) (g C.s 1) (g C.s 2)
  else rotQuat (Q4.smul C.oon C.quat)

/-- `calcX_FM(q)` : the transform in the frames in which the mobilizer is defined -/
def Spec.X0 (S : Spec K) (C : Coords K) : Xf K :=
  let c := g C.c; let s := g C.s; let q := g C.q
  match S.ty with
  | .pin => Pin.X (c 0) (s 0)
  | .slider => Slider.X (q 0)
  | .cylinder => Cylinder.X (c 0) (s 0) (q 1)
  | .bendStretch => BendStretch.X (c 0) (s 0) (q 1)
  | .universal => Universal.X (c 0) (s 0) (c 1) (s 1)
  | .planar => Planar.X (c 0) (s 0) (q 1) (q 2)
  | .gimbal => Gimbal.X (c 0) (c 1) (c 2) (s 0) (s 1) (s 2)
  | .bushing => Bushing.X (c 0) (c 1) (c 2) (s 0) (s 1) (s 2) (v3at C.q 3)
  | .ball | .lineOrientation => ⟨S.ballR C, V3.zero⟩
  | .free | .freeLine => ⟨S.ballR C, v3at C.q (if S.euler then 3 else 4)⟩
  | .translation => Translation.X (v3at C.q 0)
  | .screw => Screw.X (g S.par 0) (c 0) (s 0) (q 0)
  | .sphericalCoords => SphericalCoords.X S.sph (c 0) (s 0) (c 1) (s 1) (q 2)
  | .ellipsoid => Ellipsoid.Xof (v3at S.par 0) (S.ballR C)
  | .weld => Xf.one
  | .cantilever => Cantilever.X (g S.par 0) (g S.par 1) (g S.par 2) (c 0) (c 1) (c 2) (s 0) (s 1) (s 2) (q 0) (q 1)

/-- `calcAcrossJointVelocityJacobian` : `H_F0M0`; `X0` is what `findX_F0M0` returns -/
def Spec.H0 (S : Spec K) (C : Coords K) (X0 : Xf K) : List (SV K) :=
  let c := g C.c; let s := g C.s
  match S.ty with
  | .pin => Pin.H
  | .slider => Slider.H
  | .cylinder => Cylinder.H
  | .bendStretch => BendStretch.H X0
  | .universal => Universal.H X0
  | .planar => Planar.H
  | .gimbal => Gimbal.H (c 0) (c 1) (s 0) (s 1)
  | .bushing => Bushing.H (c 0) (c 1) (s 0) (s 1)
  | .ball => Ball.H
  | .free => Free.H
  | .translation => Translation.H
  | .screw => Screw.H (g S.par 0)
  | .sphericalCoords => SphericalCoords.H S.sph X0
  | .ellipsoid => Ellipsoid.H (v3at S.par 0) X0.R.col2
  | .lineOrientation => LineOrientation.H X0
  | .freeLine => FreeLine.H X0
  | .weld => []
  | .cantilever => Cantilever.H (g S.par 1) (g S.par 2) (c 0) (c 1) (s 0) (s 1) (g C.q 0) (g C.q 1)

/-- overridden `calcReverseMobilizerH_FM` -/
def Spec.Hrev (S : Spec K) : Option (List (SV K)) :=
  match S.ty with
  | .pin => some Pin.Hrev
  | .slider => some Slider.Hrev
  | .cylinder => some Cylinder.Hrev
  | .translation => some Translation.Hrev
  | .screw => some (Screw.Hrev (g S.par 0))
  | _ => none
/-- overridden `calcReverseMobilizerHDot_FM` (all zero for the same types) -/
def Spec.HDotRev (S : Spec K) : Option (List (SV K)) :=
  match S.ty with
  | .pin => some Pin.HDot
  | .slider => some Slider.HDot
  | .cylinder => some Cylinder.HDot
  | .translation => some Translation.HDot
  | .screw => some Screw.HDot
  | _ => none

/-- `calcAcrossJointVelocityJacobianDot` : `HDot_F0M0` from `X_F0M0`, `V_F0M0` and `qdot` -/
def Spec.HDot0 (S : Spec K) (C : Coords K) (X0 : Xf K) (V0 : SV K) (qdot : List K) : List (SV K) :=
  let c := g C.c; let s := g C.s
  match S.ty with
  | .pin => Pin.HDot
  | .slider => Slider.HDot
  | .cylinder => Cylinder.HDot
  | .bendStretch => BendStretch.HDot X0 V0
  | .universal => Universal.HDot X0 V0.w
  | .planar => Planar.HDot
  | .gimbal => Gimbal.HDot (c 0) (c 1) (s 0) (s 1) (g qdot 0) (g qdot 1)
  | .bushing => Bushing.HDot (c 0) (c 1) (s 0) (s 1) (g qdot 0) (g qdot 1)
  | .ball => Ball.HDot
  | .free => Free.HDot
  | .translation => Translation.HDot
  | .screw => Screw.HDot
  | .sphericalCoords => SphericalCoords.HDot S.sph X0 V0
  | .ellipsoid => Ellipsoid.HDot (v3at S.par 0) X0.R.col2 V0.w
  | .lineOrientation => LineOrientation.HDot X0 V0.w
  | .freeLine => FreeLine.HDot X0 V0.w
  | .weld => []
  | .cantilever => Cantilever.HDot (g S.par 2) (c 0) (c 1) (s 0) (s 1) (g qdot 0) (g qdot 1)

/-- which rotational `N` block a type uses -/
inductive NKind | ident | ballP | lineB
def Spec.nkind (S : Spec K) : NKind :=
  match S.ty with
  | .ball | .free | .ellipsoid => .ballP
  | .lineOrientation | .freeLine => .lineB
  | _ => .ident
/-- number of rotational speeds / offset of the translational tail -/
def Spec.nuRot (S : Spec K) : Nat := match S.nkind with | .ballP => 3 | .lineB => 2 | .ident => 0
def Spec.nqRot (S : Spec K) : Nat := match S.nkind with | .ident => 0 | _ => if S.euler then 3 else 4
def Spec.hasTail (S : Spec K) : Bool := match S.ty with | .free | .freeLine => true | _ => false

private def tail3 (has : Bool) (l : List K) (i : Nat) : List K := if has then l3 (v3at l i) else []
private def zeros3 (has : Bool) : List K := if has then [0, 0, 0] else []

/-- `multiplyByN(matrixOnRight=false)` / `calcQDot` : `out_q = N(q) in_u`.  `R_FM` is the rotation *in the cache*
(used by LineOrientation/FreeLine in quaternion mode exactly as the code does) -/
def Spec.mulN (S : Spec K) (C : Coords K) (R_FM : M33 K) (u : List K) : List K :=
  match S.nkind with
  | .ident => u.take S.nu
  | .ballP =>
    (if S.euler then l3 (bodyXYZ_N_P (g C.c 0) (g C.s 0) (g C.s 1) C.ooc1 (v3at u 0))
     else l4 (quat_N C.quat (v3at u 0))) ++ tail3 S.hasTail u 3
  | .lineB =>
    let wM : V3 K := ⟨g u 0, g u 1, 0⟩
    (if S.euler then l3 ((bodyXYZ_N_B (g C.s 1) (g C.c 2) (g C.s 2) C.ooc1).mulVec wM)
     else l4 (quat_N C.quat (R_FM.mulVec wM))) ++ tail3 S.hasTail u 2

/-- `multiplyByN(matrixOnRight=true)` : `out_u = ~N in_q` -/
def Spec.mulNT (S : Spec K) (C : Coords K) (R_FM : M33 K) (f : List K) : List K :=
  match S.nkind with
  | .ident => f.take S.nu
  | .ballP =>
    (if S.euler then l3 (bodyXYZ_NT_P (g C.c 0) (g C.s 0) (g C.s 1) C.ooc1 (v3at f 0))
     else l3 (quat_NT C.quat ⟨g f 0, g f 1, g f 2, g f 3⟩)) ++ tail3 S.hasTail f S.nqRot
  | .lineB =>
    let r : V3 K :=
      if S.euler then (bodyXYZ_N_B (g C.s 1) (g C.c 2) (g C.s 2) C.ooc1).tr.mulVec (v3at f 0)
      else R_FM.tr.mulVec (quat_NT C.quat ⟨g f 0, g f 1, g f 2, g f 3⟩)
    [r.x, r.y] ++ tail3 S.hasTail f S.nqRot

/-- `multiplyByNInv(matrixOnRight=false)` : `out_u = NInv in_q` -/
def Spec.mulNInv (S : Spec K) (C : Coords K) (R_FM : M33 K) (qd : List K) : List K :=
  match S.nkind with
  | .ident => qd.take S.nu
  | .ballP =>
    (if S.euler then l3 (bodyXYZ_NInv_P (g C.c 0) (g C.s 0) (g C.c 1) (g C.s 1) (v3at qd 0))
     else l3 (quat_NInv C.quat ⟨g qd 0, g qd 1, g qd 2, g qd 3⟩)) ++ tail3 S.hasTail qd S.nqRot
  | .lineB =>
    let r : V3 K :=
      if S.euler then (bodyXYZ_NInv_B (g C.c 1) (g C.s 1) (g C.c 2) (g C.s 2)).mulVec (v3at qd 0)
      else R_FM.tr.mulVec (quat_NInv C.quat ⟨g qd 0, g qd 1, g qd 2, g qd 3⟩)
    [r.x, r.y] ++ tail3 S.hasTail qd S.nqRot

/-- `multiplyByNInv(matrixOnRight=true)` : `out_q = ~NInv in_u` -/
def Spec.mulNInvT (S : Spec K) (C : Coords K) (R_FM : M33 K) (u : List K) : List K :=
  match S.nkind with
  | .ident => u.take S.nu
  | .ballP =>
    (if S.euler then l3 (bodyXYZ_NInvT_P (g C.c 0) (g C.s 0) (g C.c 1) (g C.s 1) (v3at u 0))
     else l4 (quat_NInvT C.quat (v3at u 0))) ++ tail3 S.hasTail u 3
  | .lineB =>
    let wM : V3 K := ⟨g u 0, g u 1, 0⟩
    (if S.euler then l3 ((bodyXYZ_NInv_B (g C.c 1) (g C.s 1) (g C.c 2) (g C.s 2)).tr.mulVec wM)
     else l4 (quat_NInvT C.quat (R_FM.mulVec wM))) ++ tail3 S.hasTail u 2

/-- `multiplyByNDot(matrixOnRight=false)` : `out_q = NDot(q, qdot) in_u` -/
def Spec.mulNDot (S : Spec K) (C : Coords K) (R_FM : M33 K) (qdot : List K) (u : List K) : List K :=
  match S.nkind with
  | .ident => (u.take S.nu).map (fun _ => 0)
  | .ballP =>
    (if S.euler then l3 ((bodyXYZ_NDot_P (g C.c 0) (g C.s 0) (g C.s 1) C.ooc1 (v3at qdot 0)).mulVec (v3at u 0))
     else l4 (quat_N ⟨g qdot 0, g qdot 1, g qdot 2, g qdot 3⟩ (v3at u 0))) ++ zeros3 S.hasTail
  | .lineB =>
    let wM : V3 K := ⟨g u 0, g u 1, 0⟩
    (if S.euler then l3 ((bodyXYZ_NDot_B (g C.c 2) (g C.s 2) (g C.s 1) C.ooc1 (v3at qdot 0)).mulVec wM)
     else l4 (quat_N ⟨g qdot 0, g qdot 1, g qdot 2, g qdot 3⟩ (R_FM.mulVec wM))) ++ zeros3 S.hasTail

/-- `multiplyByNDot(matrixOnRight=true)` : `out_u = ~NDot in_q` -/
def Spec.mulNDotT (S : Spec K) (C : Coords K) (R_FM : M33 K) (qdot : List K) (f : List K) : List K :=
  match S.nkind with
  | .ident => (f.take S.nu).map (fun _ => 0)
  | .ballP =>
    (if S.euler then l3 ((bodyXYZ_NDot_P (g C.c 0) (g C.s 0) (g C.s 1) C.ooc1 (v3at qdot 0)).tr.mulVec (v3at f 0))
     else l3 (quat_NT ⟨g qdot 0, g qdot 1, g qdot 2, g qdot 3⟩ ⟨g f 0, g f 1, g f 2, g f 3⟩)) ++ zeros3 S.hasTail
  | .lineB =>
    let r : V3 K :=
      if S.euler then (bodyXYZ_NDot_B (g C.c 2) (g C.s 2) (g C.s 1) C.ooc1 (v3at qdot 0)).tr.mulVec (v3at f 0)
      else R_FM.tr.mulVec (quat_NT ⟨g qdot 0, g qdot 1, g qdot 2, g qdot 3⟩ ⟨g f 0, g f 1, g f 2, g f 3⟩)
    [r.x, r.y] ++ zeros3 S.hasTail

/-- `calcQDotDot` : `N udot + NDot u` by the specialised routines -/
def Spec.qdotdot (S : Spec K) (C : Coords K) (R_FM : M33 K) (qdot u udot : List K) : List K :=
  match S.nkind with
  | .ident => udot.take S.nu
  | .ballP =>
    (if S.euler then
       l3 (bodyXYZ_qdotdot_P (g C.c 0) (g C.s 0) (g C.c 1) (g C.s 1) C.ooc1 (v3at qdot 0) (v3at udot 0))
     else l4 (quat_qdotdot C.quat (v3at u 0) (v3at udot 0))) ++ tail3 S.hasTail udot 3
  | .lineB =>
    let wM : V3 K := ⟨g u 0, g u 1, 0⟩
    let wdM : V3 K := ⟨g udot 0, g udot 1, 0⟩
    (if S.euler then
       -- convertAngVelDotInBodyFrameToBodyXYZDotDot: N*wdot + NDot(N*w)*w
       let N := bodyXYZ_N_B (g C.s 1) (g C.c 2) (g C.s 2) C.ooc1
       let qd := N.mulVec wM
       l3 (V3.add (N.mulVec wdM) ((bodyXYZ_NDot_B (g C.c 2) (g C.s 2) (g C.s 1) C.ooc1 qd).mulVec wM))
     else l4 (quat_qdotdot C.quat (R_FM.mulVec wM) (R_FM.mulVec wdM))) ++ tail3 S.hasTail udot 2

/-- the *documented* `X_F0M0(q)` where the public header defines one (otherwise the coded one) -/
def Spec.docX0 (S : Spec K) (C : Coords K) : Xf K :=
  let c := g C.c; let s := g C.s; let q := g C.q
  match S.ty with
  | .pin => Pin.docX (c 0) (s 0)
  | .slider => Slider.docX (q 0)
  | .cylinder => Cylinder.docX (c 0) (s 0) (q 1)
  | .bendStretch => BendStretch.docX (c 0) (s 0) (q 1)
  | .universal => Universal.docX (c 0) (s 0) (c 1) (s 1)
  | .planar => Planar.docX (c 0) (s 0) (q 1) (q 2)
  | .gimbal => Gimbal.docX (c 0) (c 1) (c 2) (s 0) (s 1) (s 2)
  | .bushing => Bushing.docX (c 0) (c 1) (c 2) (s 0) (s 1) (s 2) (v3at C.q 3)
  | .ball => if S.euler then Gimbal.docX (c 0) (c 1) (c 2) (s 0) (s 1) (s 2) else Ball.docXq C.quat C.oon
  | .free => if S.euler then Free.docXe (c 0) (c 1) (c 2) (s 0) (s 1) (s 2) (v3at C.q 3)
             else Free.docXq C.quat C.oon (v3at C.q 4)
  | .translation => Translation.docX (v3at C.q 0)
  | .screw => Screw.docX (g S.par 0) (c 0) (s 0) (q 0)
  | .sphericalCoords => SphericalCoords.docX S.sph (c 0) (s 0) (c 1) (s 1) (q 2)
  | .cantilever => Cantilever.docX (g S.par 0) (g S.par 1) (g S.par 2) (c 0) (c 1) (c 2) (s 0) (s 1) (s 2) (q 0) (q 1)
  | .ellipsoid =>
    let R := if S.euler then Gimbal.docR (c 0) (c 1) (c 2) (s 0) (s 1) (s 2) else Ball.docRq C.quat C.oon
    Ellipsoid.Xof (v3at S.par 0) R
  | .lineOrientation =>
    ⟨if S.euler then Gimbal.docR (c 0) (c 1) (c 2) (s 0) (s 1) (s 2) else Ball.docRq C.quat C.oon, V3.zero⟩
  | .freeLine =>
    ⟨if S.euler then Gimbal.docR (c 0) (c 1) (c 2) (s 0) (s 1) (s 2) else Ball.docRq C.quat C.oon,
     v3at C.q (if S.euler then 3 else 4)⟩
  | .weld => Xf.one

/-- `setUToFitVelocityImpl(V_F0M0)` (angular then linear) of the types whose fit is algebraic and does not read the
current `u`; `none` for the others (BendStretch, SphericalCoords, Ellipsoid, Cantilever: implementation predicates only) -/
def Spec.fitU (S : Spec K) (C : Coords K) (X0 : Xf K) (V0 : SV K) : Option (List K) :=
  match S.ty with
  | .pin => some (Pin.fitU V0)
  | .slider => some (Slider.fitU V0)
  | .cylinder => some (Cylinder.fitU V0)
  | .screw => some [V0.v.z / g S.par 0]            -- the linear fit (`v.z/pitch`) overrides the angular one
  | .translation => some (Translation.fitU V0)
  | .planar => some (Planar.fitU V0)
  | .universal => some (Universal.fitU X0 V0)
  | .gimbal => some (Gimbal.fitU (g C.c 0) (g C.s 0) (g C.s 1) C.ooc1 V0)
  | .bushing => some (Bushing.fitU (g C.c 0) (g C.s 0) (g C.s 1) C.ooc1 V0)
  | .ball => some (Ball.fitU V0)
  | .free => some (Free.fitU V0)
  | .lineOrientation => some (LineOrientation.fitU X0 V0)
  | .freeLine => some (FreeLine.fitU X0 V0)
  | _ => none

/-- `setQToFitTranslationImpl(p_F0M0)`: the translational coordinates of the types whose translation fit is a copy -/
def Spec.fitQtrans (S : Spec K) (p : V3 K) : Option (List K) :=
  match S.ty with
  | .slider => some [Slider.fitQ ⟨M33.one, p⟩]
  | .translation => some (l3 (Translation.fitQ ⟨M33.one, p⟩))
  | .cylinder => some [p.z]
  | .planar => some [p.x, p.y]
  | .bushing | .free | .freeLine => some (l3 p)
  | _ => none

/-! ### Representation changes (C06) -/

/-- the quaternion of the body-fixed x-y-z sequence: `qx ⊗ qy ⊗ qz` of the elementary half-angle quaternions
(what `convertToQuaternions` must produce, up to sign, from Euler angles with half-angle pairs `(ch,sh)`) -/
def eulerQuat (ch0 sh0 ch1 sh1 ch2 sh2 : K) : Q4 K :=
  Q4.hmul (Q4.hmul ⟨ch0, sh0, 0, 0⟩ ⟨ch1, 0, sh1, 0⟩) ⟨ch2, 0, 0, sh2⟩

/-- `FunctionBasedImpl::calcMobilizerTransformFromQ` with the default axes: body-fixed x-y-z of the three rotation
function values (given as trig pairs), translation function values along F's x,y,z -/
def functionBasedX (c0 c1 c2 s0 s1 s2 : K) (p : V3 K) : Xf K :=
  ⟨M33.mul (M33.mul (rotAxis V3.ex c0 s0) (rotAxis V3.ey c1 s1)) (rotAxis V3.ez c2 s2),
   V3.add (V3.add (V3.smul p.x V3.ex) (V3.smul p.y V3.ey)) (V3.smul p.z V3.ez)⟩

/-- the FunctionBased mirror of a built-in type: coordinate `k` drives spatial function `slot` linearly, the other
functions are the constant 0 (`cos 0 = 1`, `sin 0 = 0`) -/
def Spec.fbX0 (S : Spec K) (C : Coords K) : Option (Xf K) :=
  let c := g C.c; let s := g C.s; let q := g C.q
  match S.ty with
  | .pin => some (functionBasedX 1 1 (c 0) 0 0 (s 0) V3.zero)
  | .slider => some (functionBasedX 1 1 1 0 0 0 ⟨q 0, 0, 0⟩)
  | .cylinder => some (functionBasedX 1 1 (c 0) 0 0 (s 0) ⟨0, 0, q 1⟩)
  | .planar => some (functionBasedX 1 1 (c 0) 0 0 (s 0) ⟨q 1, q 2, 0⟩)
  | .universal => some (functionBasedX (c 0) (c 1) 1 (s 0) (s 1) 0 V3.zero)
  | .gimbal => some (functionBasedX (c 0) (c 1) (c 2) (s 0) (s 1) (s 2) V3.zero)
  | .bushing => some (functionBasedX (c 0) (c 1) (c 2) (s 0) (s 1) (s 2) (v3at C.q 3))
  | .translation => some (functionBasedX 1 1 1 0 0 0 (v3at C.q 0))
  | _ => none

/-- all kinematic results of one mobilized body, given its parent's pose and velocity -/
structure BodyKin (K : Type) where
  X_FM : Xf K
  H_FM : List (SV K)
  V_FM : SV K
  X_PBv : Xf K
  X_GBv : Xf K
  H : List (SV K)
  V_GBv : SV K
  qdot : List K
  HDot_FM : List (SV K)
  HDot : List (SV K)
  cor : SV K

/-- `realizePosition` + `realizeVelocity` of one node -/
def Spec.realize (S : Spec K) (C : Coords K) (rev : Bool) (X_GP : Xf K) (V_GP : SV K) (X_PF X_MB : Xf K)
    (u : List K) : BodyKin K :=
  let Xdef := S.X0 C
  let X_FM := realizeX rev Xdef
  let X0 := findX_F0M0 rev X_FM
  let H0 := S.H0 C X0
  let H_FM := realizeH rev X_FM H0 S.Hrev
  let Xpb := X_PB X_PF X_FM X_MB
  let Xgb := Xf.mul X_GP Xpb
  let Hg := H_PB_G X_GP.R X_PF X_FM X_MB H_FM
  let qd := S.mulN C X_FM.R u
  let V_FM := Hmul H_FM u
  let V_PB_G := Hmul Hg u
  let V0 := findV_F0M0 rev X_FM V_FM
  let HD0 := S.HDot0 C X0 V0 qd
  let HD_FM := realizeHDot rev X_FM V_FM H_FM HD0 S.HDotRev
  let HD := HDot_PB_G X_GP.R V_GP.w X_PF X_FM X_MB V_FM.w H_FM HD_FM Hg
  let Vgb := V_GB X_GP V_GP Xpb V_PB_G
  ⟨X_FM, H_FM, V_FM, Xpb, Xgb, Hg, Vgb, qd, HD_FM, HD, coriolisA V_GP Vgb (Hmul HD u)⟩

end Dispatch

end Mobilizer
