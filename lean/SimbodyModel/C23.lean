import SimbodyModel.Proto
/-!
# C23 — Measures: model of `SimTKcommon/.../MeasureImplementation.h`

* `Measure_<T>::Extreme::Implementation` (`isNewExtreme`, `extremeOf`, the auto-update protocol: the state variable holds
  the extreme of the *completed* steps, the cache entry the candidate for the current time; `getTimeOfExtremeValue`);
  scalar and element-wise vector form;
* `Measure_Delay_Buffer<T>` at the level of its logical contents (list of `(time,value)` entries, oldest first, plus the
  capacity bookkeeping): `append`, `prepend`, `copyInAndUpdate`, `forgetEntriesMuchOlderThan`, `removeEntriesLaterOrEq`,
  `findFirstLaterOrEq`, `findLastEarlier`, `makeMoreRoom`, `makeLessRoom`, `calcValueAtTimeLinearOnly`; the circular
  array layout (`m_oldest`, `getArrayIndex`) is an implementation detail tied by the correspondence check;
* `Measure_<T>::Delay::Implementation` (buffer in an auto-update variable: the value at `t` is interpolated from the
  buffer of the completed steps, `updateBuffer` = `copyInAndUpdate` at every realization);
* `Measure_<T>::Differentiate::Implementation` when approximating (`ensureDerivativeIsRealized`);
* `Sinusoid`, `Plus`, `Minus`, `Scale`, `Constant`, `Time` formulas.
`SampleAndHold` is declared "NOT IMPLEMENTED YET" in Measure.h (no implementation exists) and is not modelled.
Polymorphic in the scalar `K` (times and values share it).
-/
namespace C23

variable {K : Type} [Add K] [Sub K] [Mul K] [Neg K] [Div K] [OfNat K 0] [OfNat K 1] [OfNat K 2]
variable [LT K] [DecidableLT K] [LE K] [DecidableLE K]

def absK (x : K) : K := if x < 0 then -x else x

/-! ## Extreme -/

/-- `Extreme::Operation` (enum order of the C++: MaxAbs, Maximum, MinAbs, Minimum) -/
inductive Op | maxAbs | maximum | minAbs | minimum
deriving DecidableEq, Repr

/-- `isNewExtreme(newVal, oldExtreme)` -/
def isNewExtreme (op : Op) (newVal old : K) : Bool :=
  match op with
  | .maximum => decide (old < newVal)
  | .minimum => decide (newVal < old)
  | .maxAbs => decide (absK old < absK newVal)
  | .minAbs => decide (absK newVal < absK old)

/-- `extremeOf(newVal, oldExtreme)` -/
def extremeOf (op : Op) (newVal old : K) : K := if isNewExtreme op newVal old then newVal else old

/-- the auto-update state variable: extreme of the completed steps and the time it was stored -/
structure ExtSt (K : Type) where
  ext : K
  tExt : K

/-- `initializeVirtual`: `setValue(s, operand.getValue(s))` at the initial time -/
def extInit (t0 v0 : K) : ExtSt K := ⟨v0, t0⟩

/-- what `getValue` / `getTimeOfExtremeValue` report at a state with time `t` and operand value `v` -/
def extObserve (op : Op) (st : ExtSt K) (t v : K) : K × K × Bool :=
  let nw := isNewExtreme op v st.ext
  (if nw then v else st.ext, if nw then t else st.tExt, nw)

/-- the auto-update swap when the integrator leaves the state `(t, v)`: only a *new* extreme creates an update value -/
def extAdvance (op : Op) (st : ExtSt K) (t v : K) : ExtSt K :=
  if isNewExtreme op v st.ext then ⟨v, t⟩ else st

/-- run over the completed steps `(t₁,v₁), (t₂,v₂), …` after initialization at `(t₀,v₀)`, producing the observation at
each step -/
def extRun (op : Op) : ExtSt K → List (K × K) → List (K × K × Bool)
  | _, [] => []
  | st, (t, v) :: rest => extObserve op st t v :: extRun op (extAdvance op st t v) rest

/-- final state after a list of steps -/
def extFold (op : Op) (st : ExtSt K) (steps : List (K × K)) : ExtSt K :=
  steps.foldl (fun s p => extAdvance op s p.1 p.2) st

/-- trajectory with report states: `isReport = true` is an interpolated report state (observed with the state variable of
the step in progress, never fed to the auto-update), `false` a completed step -/
def extRunF (op : Op) : ExtSt K → List (Bool × K × K) → List (K × K × Bool)
  | _, [] => []
  | st, (rep, t, v) :: rest =>
    extObserve op st t v :: extRunF op (if rep then st else extAdvance op st t v) rest

/-- `getValue(s, 1)` of an Extreme whose operand has a derivative: the operand's derivative if the current value is a
new extreme, else zero -/
def extDeriv (op : Op) (st : ExtSt K) (v vdot : K) : K := if isNewExtreme op v st.ext then vdot else 0

/-- vector form: a new extreme in *any* element updates *every* element by `extremeOf` -/
def extObserveVec (op : Op) (old cur : List K) : List K × Bool :=
  let nw := (List.zipWith (isNewExtreme op) cur old).any id
  (if nw then List.zipWith (extremeOf op) cur old else old, nw)

/-- vector Extreme on a trajectory (state variable = list of element extremes) -/
def extVecRunF (op : Op) : List K → List (Bool × List K) → List (List K)
  | _, [] => []
  | old, (rep, cur) :: rest =>
    let o := extObserveVec op old cur
    o.1 :: extVecRunF op (if rep then old else o.1) rest

/-! ## Delay buffer (logical contents) -/

structure Buf (K : Type) where
  entries : List (K × K)     -- (time, value), oldest first
  cap : Nat                  -- capacity of the arrays
deriving Inhabited

def Buf.size (b : Buf K) : Nat := b.entries.length
def Buf.empty : Buf K := ⟨[], 0⟩

/-- index of the first entry with `time >= t`, or `none` (C++: -1) -/
def findFirstLaterOrEq (es : List (K × K)) (t : K) : Option Nat :=
  es.findIdx? (fun e => decide (t ≤ e.1))

/-- index of the last entry with `time < t`, or `none` -/
def findLastEarlier (es : List (K × K)) (t : K) : Option Nat :=
  let n := (es.reverse.findIdx? (fun e => decide (e.1 < t)))
  n.map (fun k => es.length - 1 - k)

/-- `countNumUnneededOldEntries`: `max(0, firstLater-2)` with `firstLater = -1` when there is none -/
def countUnneeded (es : List (K × K)) (tEarliest : K) : Nat :=
  match findFirstLaterOrEq es tEarliest with
  | some i => i - 2
  | none => 0

/-- number of entries kept by `removeEntriesLaterOrEq(t)`: `findLastEarlier(t)+1` -/
def keepEarlier (es : List (K × K)) (t : K) : Nat :=
  match findLastEarlier es t with
  | some i => i + 1
  | none => 0

/-- `makeMoreRoom`: `resize(max(InitialAllocation=8, GrowthFactor=2 * size))` -/
def moreRoom (size : Nat) : Nat := max 8 (2 * size)
/-- `makeLessRoom`: target `max(MaxShrinkProofSize=16, 2*size)`; shrinks only if the capacity is larger -/
def lessRoom (cap size : Nat) : Nat := let tgt := max 16 (2 * size); if tgt < cap then tgt else cap

/-- `append(tEarliest, tNow, valueNow)` -/
def Buf.append (b : Buf K) (tEarliest tNow v : K) : Buf K :=
  let es1 := b.entries.drop (countUnneeded b.entries tEarliest)
  let es2 := es1.take (keepEarlier es1 tNow)
  let n := es2.length
  let cap' := if n = b.cap then moreRoom n
              else if max 16 (5 * (n + 1)) < b.cap then lessRoom b.cap n else b.cap
  ⟨es2 ++ [(tNow, v)], cap'⟩

/-- `prepend(tNewOldest, value)` (precondition asserted by the C++: empty or `tNewOldest <` oldest time) -/
def Buf.prepend (b : Buf K) (t v : K) : Buf K :=
  let cap' := if b.size = b.cap then moreRoom b.size else b.cap
  ⟨(t, v) :: b.entries, cap'⟩

/-- `this.copyInAndUpdate(oldBuf, tEarliest, tNow, valueNow)`; `this` contributes only its capacity -/
def Buf.copyInAndUpdate (this old : Buf K) (tEarliest tNow v : K) : Buf K :=
  let firstNeeded := countUnneeded old.entries tEarliest
  let keepEnd := keepEarlier old.entries tNow                 -- lastNeeded + 1
  let kept := (old.entries.take keepEnd).drop firstNeeded
  let newSize : Int := (keepEnd : Int) - firstNeeded + 1      -- as computed by the C++ (may be ≤ 0 … + 1)
  let ns := newSize.toNat
  let cap' := if (this.cap : Int) < newSize then max 8 (2 * ns)
              else if (max 16 (5 * newSize) : Int) < this.cap then max 16 (2 * ns) else this.cap
  ⟨kept ++ [(tNow, v)], cap'⟩

/-- `calcValueAtTimeLinearOnly(tDelay)`; `none` = the NaN/empty result for an empty buffer -/
def Buf.valueAt (b : Buf K) (tDelay : K) : Option K :=
  let es := b.entries
  if es.isEmpty then none else
  match findFirstLaterOrEq es tDelay with
  | some 0 => some (es.getD 0 (0, 0)).2                       -- startup: flat before the oldest entry
  | some (i + 1) =>
    let e0 := es.getD i (0, 0); let e1 := es.getD (i + 1) (0, 0)
    let fraction := (tDelay - e0.1) / (e1.1 - e0.1)
    some (e0.2 + fraction * (e1.2 - e0.2))
  | none =>
    if es.length = 1 then some (es.getD 0 (0, 0)).2           -- one entry: flat
    else
      let e0 := es.getD (es.length - 2) (0, 0); let e1 := es.getD (es.length - 1) (0, 0)
      let fraction := (tDelay - e0.1) / (e1.1 - e0.1)           -- > 1: extrapolation
      some (e0.2 + fraction * (e1.2 - e0.2))

/-! ## Delay measure on an integrator trajectory -/

/-- state variable after `initializeVirtual` at `(t0, v0)`: `clear(); append(t0-delay, t0, v0)` -/
def delayInit (delay t0 v0 : K) : Buf K := Buf.empty.append (t0 - delay) t0 v0

/-- observations at the completed steps: the value at `t` comes from the buffer of the *previous* steps; then the
update value computed at `(t, v)` (`copyInAndUpdate` into the cache-entry buffer) is swapped in.  The two `Buf` objects
(state variable and cache entry) alternate roles at every swap; only their capacities differ. -/
def delayRun (delay : K) : Buf K → Buf K → List (K × K) → List (Option K)
  | _, _, [] => []
  | var, cache, (t, v) :: rest =>
    let obs := var.valueAt (t - delay)
    let upd := cache.copyInAndUpdate var (t - delay) t v
    obs :: delayRun delay upd var rest

/-- with report states (observe only) -/
def delayRunF (delay : K) : Buf K → Buf K → List (Bool × K × K) → List (Option K)
  | _, _, [] => []
  | var, cache, (rep, t, v) :: rest =>
    let obs := var.valueAt (t - delay)
    if rep then obs :: delayRunF delay var cache rest
    else obs :: delayRunF delay (cache.copyInAndUpdate var (t - delay) t v) var rest

/-! ## Differentiate (approximation in use) -/

structure DiffSt (K : Type) where
  f : K
  fdot : K
  good : Bool
  t0 : K

/-- `initializeVirtual`: `operand = f(t0); operandDot = 0; derivIsGood = false` -/
def diffInit (t0 v0 : K) : DiffSt K := ⟨v0, 0, false, t0⟩

/-- `ensureDerivativeIsRealized` at `(t, f)`: the update value (which is also what `getValue` returns) -/
def diffUpdate (st : DiffSt K) (t f : K) (sameTime : Bool) : DiffSt K :=
  if sameTime then ⟨f, st.fdot, st.good, t⟩
  else
    let fd := (f - st.f) / (t - st.t0)
    let fd' := if st.good then 2 * fd - st.fdot else fd
    ⟨f, fd', true, t⟩

def diffRun : DiffSt K → List (K × K × Bool) → List K
  | _, [] => []
  | st, (t, f, same) :: rest => let st' := diffUpdate st t f same; st'.fdot :: diffRun st' rest

/-- with report states: the estimate at a report state is computed from the state variable of the step in progress and
discarded -/
def diffRunF : DiffSt K → List (Bool × K × K) → List K
  | _, [] => []
  | st, (rep, t, f) :: rest =>
    let same := !(decide (t < st.t0)) && !(decide (st.t0 < t))      -- `t == t0`
    let st' := diffUpdate st t f same
    st'.fdot :: diffRunF (if rep then st else st') rest

/-! ## Integrate -/

/-- `Integrate`: one continuous state `z` per element; `initializeVirtual` sets `z := ic`; `realizeAcceleration` sets
`zdot := operand`; `getValue(s,0) = z`, `getValue(s,1) = operand` -/
def integInit (ic : K) : K := ic
def integZDot (operandValue : K) : K := operandValue
/-- what an explicit Euler step of length `t1 - t0` does to `z` (`y := yPrev + h*ydotPrev`, ExplicitEulerIntegrator.cpp) -/
def integEulerStep (z t0 t1 zdot0 : K) : K := z + (t1 - t0) * zdot0

/-- Euler trajectory of the integral: steps `(t, operand(t))`; returns `z` at every step -/
def integEulerRun : K → K → K → List (K × K) → List K
  | _, _, _, [] => []
  | z, t0, v0, (t, v) :: rest => let z' := integEulerStep z t0 t v0; z' :: integEulerRun z' t v rest

/-! ## arithmetic measures -/

/-- `Sinusoid`: value and three derivatives given `s = sin(wt+p)`, `c = cos(wt+p)` -/
def sinusoid (order : Nat) (a w s c : K) : K :=
  match order with
  | 0 => a * s
  | 1 => w * a * c
  | 2 => -w * w * a * s
  | _ => -w * w * w * a * c

def plus (x y : K) : K := x + y
def minus (x y : K) : K := x - y
def scale (f x : K) : K := f * x

end C23
