import SimbodyModel.Gen.Controller
/-!
# C20 — explicit integration methods, step-size controller, Hermite interpolation (model, kind A)

Mirrors, statement by statement and in the same arithmetic order,

* `RungeKuttaMersonIntegratorRep::attemptODEStep`      → `mersonStep`
* `RungeKuttaFeldbergIntegratorRep::attemptODEStep`    → `rkfStep`
* `RungeKutta3IntegratorRep::attemptODEStep`           → `rk3Step`
* `RungeKutta2IntegratorRep::attemptODEStep`           → `rk2Step`
* `ExplicitEulerIntegratorRep::attemptDAEStep`         → `eulerStep`   (unconstrained system)
* `SemiExplicitEulerIntegratorRep::attemptDAEStep`     → `seeStep`     (unconstrained system)
* `SemiExplicitEuler2IntegratorRep::attemptDAEStep`    → `see2Step`    (unconstrained system)
* `VerletIntegratorRep::attemptDAEStep`                → `verletStep`  (unconstrained system, incl. the functional iteration)
* `IntegratorRep::interpolateOrder3`                   → `interpolateOrder3`
* the linear interpolation of the Euler variants' `createInterpolatedState` → `interpolateLinear`
* `IntegratorRep::calcErrorNorm` / `calcRelativeScaling` / `Vector::weightedNormRMS/Inf` → `errNorm` …
* `AbstractIntegratorRep::adjustStepSize`              → `adjustStepSize`
* the step-size choice and retry loop of `AbstractIntegratorRep::takeOneStep` → `chooseT1`, `takeOneStep`

(/repo/SimTKmath/Integrators/src).  Everything is polymorphic in the scalar `K` *and* in the vector type
`V` (only `+`, `-`, scalar `•` are used; the element-wise `abs` of the error estimates is a parameter):
proved for every field `K` and every `K`-module `V` (SimbodyProofs/C20.lean), executed with `K := Float`
and `V := LV Float` (Drivers/C20.lean).  `sqrt` and `pow` enter as parameters (libm is trusted).

Numeric literals are written `‹n›` (`Nat` cast into `K`); a C++ literal such as `Real(1932.0/2197.0)` is
`‹1932›/‹2197›`, which over `Float` is the same correctly-rounded double.
-/
namespace C20

section Steps
variable {K V : Type} [Add K] [Sub K] [Mul K] [Div K] [Neg K] [NatCast K]
variable [Add V] [Sub V] [HSMul K V V]

local notation "‹" n "›" => ((n : Nat) : K)

/-! ## The explicit Runge–Kutta steps, as coded

All take the right-hand side `f t y`, the start time `t0`, the end time `t1` (the C++ computes
`h = t1 - t0`), the start state `y0` and its derivative `f0` (`getPreviousYDot()`, FSAL), and return the
propagated state `y1` and the error estimate `y1err` handed to the controller. -/

/-- RungeKuttaMersonIntegrator.cpp, `attemptODEStep`; `errOrder = 4`.  Also returns `ysave`. -/
def mersonStepFull (vabs : V → V) (f : K → V → V) (t0 t1 : K) (y0 f0 : V) : V × V × V :=
  let h := t1 - t0
  let f1 := f (t0 + h/‹3›) (y0 + (h/‹3›) • f0)
  let f2 := f (t0 + h/‹3›) (y0 + (h/‹6›) • (f0 + f1))
  let f3 := f (t0 + h/‹2›) (y0 + (h/‹8›) • (f0 + ‹3› • f2))
  let ysave := y0 + (h/‹2›) • (f0 - ‹3› • f2 + ‹4› • f3)
  let f4 := f t1 ysave
  let y1 := y0 + (h/‹6›) • (f0 + ‹4› • f3 + f4)
  (y1, (‹2›/‹10›) • vabs (y1 - ysave), ysave)

def mersonStep (vabs : V → V) (f : K → V → V) (t0 t1 : K) (y0 f0 : V) : V × V :=
  let r := mersonStepFull vabs f t0 t1 y0 f0
  (r.1, r.2.1)

/-- the embedded 3rd-order solution the Merson comment talks about:
`y1hat = y0 + (h/10)*(f0 + 3 f2 + 4 f3 + 2 f4)` (never computed by the code) -/
def mersonY1hat (f : K → V → V) (t0 t1 : K) (y0 f0 : V) : V :=
  let h := t1 - t0
  let f1 := f (t0 + h/‹3›) (y0 + (h/‹3›) • f0)
  let f2 := f (t0 + h/‹3›) (y0 + (h/‹6›) • (f0 + f1))
  let f3 := f (t0 + h/‹2›) (y0 + (h/‹8›) • (f0 + ‹3› • f2))
  let ysave := y0 + (h/‹2›) • (f0 - ‹3› • f2 + ‹4› • f3)
  let f4 := f t1 ysave
  y0 + (h/‹10›) • (f0 + ‹3› • f2 + ‹4› • f3 + ‹2› • f4)

/-- RungeKuttaFeldbergIntegrator.cpp, `attemptODEStep`; `errOrder = 4`.  The propagated solution uses the
`CY` (4th-order) weights; `y1err` uses `CE = (5th-order weights) − CY`. -/
def rkfStep (f : K → V → V) (t0 t1 : K) (y0 f0 : V) : V × V :=
  let C21 : K := ‹1›/‹4›
  let C22 : K := ‹1›/‹4›
  let C31 : K := ‹3›/‹8›
  let C32 : K := ‹3›/‹32›
  let C33 : K := ‹9›/‹32›
  let C41 : K := ‹12›/‹13›
  let C42 : K := ‹1932›/‹2197›
  let C43 : K := -(‹7200›/‹2197›)
  let C44 : K := ‹7296›/‹2197›
  let C51 : K := ‹1›
  let C52 : K := ‹439›/‹216›
  let C53 : K := -‹8›
  let C54 : K := ‹3680›/‹513›
  let C55 : K := -(‹845›/‹4104›)
  let C61 : K := ‹1›/‹2›
  let C62 : K := -(‹8›/‹27›)
  let C63 : K := ‹2›
  let C64 : K := -(‹3544›/‹2565›)
  let C65 : K := ‹1859›/‹4104›
  let C66 : K := -(‹11›/‹40›)
  let CY1 : K := ‹25›/‹216›
  let CY2 : K := ‹1408›/‹2565›
  let CY3 : K := ‹2197›/‹4104›
  let CY4 : K := -(‹1›/‹5›)
  let CE1 : K := ‹16›/‹135› - CY1
  let CE2 : K := ‹6656›/‹12825› - CY2
  let CE3 : K := ‹28561›/‹56430› - CY3
  let CE4 : K := -(‹9›/‹50›) - CY4
  let CE5 : K := ‹2›/‹55›
  let h := t1 - t0
  let k0 := f (t0 + h*C21) (y0 + (h*C22) • f0)
  let k1 := f (t0 + h*C31) (y0 + (h*C32) • f0 + (h*C33) • k0)
  let k2 := f (t0 + h*C41) (y0 + (h*C42) • f0 + (h*C43) • k0 + (h*C44) • k1)
  let k3 := f (t0 + h*C51) (y0 + (h*C52) • f0 + (h*C53) • k0 + (h*C54) • k1 + (h*C55) • k2)
  let k4 := f (t0 + h*C61) (y0 + (h*C62) • f0 + (h*C63) • k0 + (h*C64) • k1 + (h*C65) • k2 + (h*C66) • k3)
  let y1 := y0 + (h*CY1) • f0 + (h*CY2) • k1 + (h*CY3) • k2 + (h*CY4) • k3
  let err := (h*CE1) • f0 + (h*CE2) • k1 + (h*CE3) • k2 + (h*CE4) • k3 + (h*CE5) • k4
  (y1, err)

/-- RungeKutta3Integrator.cpp, `attemptODEStep`; `errOrder = 3` -/
def rk3Step (vabs : V → V) (f : K → V → V) (t0 t1 : K) (y0 f0 : V) : V × V :=
  let h := t1 - t0
  let f1 := f (t0 + h/‹2›) (y0 + (h/‹2›) • f0)
  let f2 := f t1 (y0 + h • (‹2› • f1 - f0))
  let y1 := y0 + (h/‹6›) • (f0 + ‹4› • f1 + f2)
  (y1, vabs (y1 - (y0 + h • f1)))

/-- RungeKutta2Integrator.cpp, `attemptODEStep`; `errOrder = 2` -/
def rk2Step (vabs : V → V) (f : K → V → V) (t0 t1 : K) (y0 f0 : V) : V × V :=
  let h := t1 - t0
  let f1 := f t1 (y0 + h • f0)
  let y1 := y0 + (h/‹2›) • (f0 + f1)
  (y1, vabs (y1 - (y0 + h • f1)))

/-- ExplicitEulerIntegrator.cpp, `attemptDAEStep` for a system without constraints or prescribed motion;
`errOrder = 2`; the estimate is signed (no `abs` in the code). -/
def eulerStep (f : K → V → V) (t0 t1 : K) (y0 f0 : V) : V × V :=
  let h := t1 - t0
  let y1 := y0 + h • f0
  let f1 := f t1 y1
  (y1, y1 - (y0 + (h/‹2›) • (f0 + f1)))

/-! ### Partitioned (q,u,z) first-order methods

`nmul q u` is `N(q)·u` (`System::multiplyByN`); `g t q u z` returns `(udot, zdot)`. -/

/-- SemiExplicitEulerIntegrator.cpp, `attemptDAEStep`, unconstrained: returns `(q1,u1,z1)` -/
def seeStep (nmul : V → V → V) (t0 t1 : K) (q0 u0 z0 udot0 zdot0 : V) : V × V × V :=
  let h := t1 - t0
  let z1 := z0 + h • zdot0
  let u1 := u0 + h • udot0
  let q1 := q0 + h • nmul q0 u1
  (q1, u1, z1)

/-- SemiExplicitEuler2Integrator.cpp, `attemptDAEStep`, unconstrained: one big step for the error estimate,
two half steps for the propagated solution (no local extrapolation).  Returns `((q1,u1,z1), (qErr,uErr,zErr))`;
`errOrder = 2`. -/
def see2Step (nmul : V → V → V) (g : K → V → V → V → V × V) (t0 t1 : K) (q0 u0 z0 udot0 zdot0 : V) :
    (V × V × V) × (V × V × V) :=
  let h := t1 - t0
  let hHalf := h/‹2›
  let tHalf := t0 + hHalf
  let zBig := z0 + h • zdot0
  let uBig := u0 + h • udot0
  let qBig := q0 + h • nmul q0 uBig
  let zH := z0 + hHalf • zdot0
  let uH := u0 + hHalf • udot0
  let qH := q0 + hHalf • nmul q0 uH
  let d := g tHalf qH uH zH
  let z1 := zH + hHalf • d.2
  let u1 := uH + hHalf • d.1
  let q1 := qH + hHalf • nmul qH u1
  ((q1, u1, z1), (q1 - qBig, u1 - uBig, z1 - zBig))

/-! ## A generic explicit Runge–Kutta step from a Butcher tableau -/

/-- rows `(cᵢ, [aᵢ₁ … aᵢ,ᵢ₋₁])` (first row `(0, [])`), weights `b` (propagated) and `bhat` (embedded) -/
structure Tableau (K : Type) where
  rows : List (K × List K)
  b    : List K
  bhat : List K

/-- `y0 + Σⱼ (h·aⱼ) • kⱼ`, accumulated left to right -/
def lincomb (h : K) (acc : V) : List K → List V → V
  | a :: as, k :: ks => lincomb h (acc + (h * a) • k) as ks
  | _, _ => acc

/-- stage derivatives `k₁ … k_s` -/
def rkStages (f : K → V → V) (t0 h : K) (y0 : V) : List (K × List K) → List V → List V
  | [], ks => ks
  | (c, a) :: rows, ks => rkStages f t0 h y0 rows (ks ++ [f (t0 + c * h) (lincomb h y0 a ks)])

/-- generic step: `(y0 + h Σ bᵢ kᵢ , y0 + h Σ b̂ᵢ kᵢ)` -/
def rkStep (T : Tableau K) (f : K → V → V) (t0 h : K) (y0 : V) : V × V :=
  let ks := rkStages f t0 h y0 T.rows []
  (lincomb h y0 T.b ks, lincomb h y0 T.bhat ks)

/-- Merson, as in the comment of RungeKuttaMersonIntegrator.cpp (5 stages) -/
def mersonTableau : Tableau K where
  rows := [(‹0›, []), (‹1›/‹3›, [‹1›/‹3›]), (‹1›/‹3›, [‹1›/‹6›, ‹1›/‹6›]),
           (‹1›/‹2›, [‹1›/‹8›, ‹0›, ‹3›/‹8›]), (‹1›, [‹1›/‹2›, ‹0›, -(‹3›/‹2›), ‹2›])]
  b    := [‹1›/‹6›, ‹0›, ‹0›, ‹2›/‹3›, ‹1›/‹6›]
  bhat := [‹1›/‹10›, ‹0›, ‹3›/‹10›, ‹2›/‹5›, ‹1›/‹5›]

/-- Fehlberg 4(5): `b` = the propagated 4th-order weights `CY`, `bhat` = the 5th-order weights -/
def rkfTableau : Tableau K where
  rows := [(‹0›, []), (‹1›/‹4›, [‹1›/‹4›]), (‹3›/‹8›, [‹3›/‹32›, ‹9›/‹32›]),
           (‹12›/‹13›, [‹1932›/‹2197›, -(‹7200›/‹2197›), ‹7296›/‹2197›]),
           (‹1›, [‹439›/‹216›, -‹8›, ‹3680›/‹513›, -(‹845›/‹4104›)]),
           (‹1›/‹2›, [-(‹8›/‹27›), ‹2›, -(‹3544›/‹2565›), ‹1859›/‹4104›, -(‹11›/‹40›)])]
  b    := [‹25›/‹216›, ‹0›, ‹1408›/‹2565›, ‹2197›/‹4104›, -(‹1›/‹5›), ‹0›]
  bhat := [‹16›/‹135›, ‹0›, ‹6656›/‹12825›, ‹28561›/‹56430›, -(‹9›/‹50›), ‹2›/‹55›]

/-- Butcher's RK3(2) of RungeKutta3Integrator.cpp; embedded = explicit midpoint -/
def rk3Tableau : Tableau K where
  rows := [(‹0›, []), (‹1›/‹2›, [‹1›/‹2›]), (‹1›, [-‹1›, ‹2›])]
  b    := [‹1›/‹6›, ‹2›/‹3›, ‹1›/‹6›]
  bhat := [‹0›, ‹1›, ‹0›]

/-- explicit trapezoid rule of RungeKutta2Integrator.cpp; embedded = `y0 + h f1` -/
def rk2Tableau : Tableau K where
  rows := [(‹0›, []), (‹1›, [‹1›])]
  b    := [‹1›/‹2›, ‹1›/‹2›]
  bhat := [‹0›, ‹1›]

/-- explicit Euler; "embedded" = explicit trapezoid, using the FSAL derivative `f(t1,y1)` as 2nd stage -/
def eulerTableau : Tableau K where
  rows := [(‹0›, []), (‹1›, [‹1›])]
  b    := [‹1›, ‹0›]
  bhat := [‹1›/‹2›, ‹1›/‹2›]

/-! ## Interpolation -/

/-- `IntegratorRep::interpolateOrder3` (cubic Hermite) -/
def interpolateOrder3 (t0 : K) (y0 f0 : V) (t1 : K) (y1 f1 : V) (t : K) : V :=
  let h := t1 - t0
  let d := (t - t0) / h
  let cy1 := d * d * (‹3› - ‹2› * d)
  let cy0 := ‹1› - cy1
  let hdd1 := h * d * (d - ‹1›)
  let cf1 := hdd1 * d
  let cf0 := cf1 - hdd1
  cy0 • y0 + cy1 • y1 + cf0 • f0 + cf1 • f1

/-- `createInterpolatedState` of ExplicitEuler / SemiExplicitEuler / SemiExplicitEuler2 -/
def interpolateLinear (t0 : K) (y0 : V) (t1 : K) (y1 : V) (t : K) : V :=
  let weight1 := (t1 - t) / (t1 - t0)
  let weight2 := ‹1› - weight1
  weight1 • y0 + weight2 • y1

end Steps

/-! ## Step-size controller (`AbstractIntegratorRep.cpp`) -/
section Controller
variable {K : Type} [Add K] [Sub K] [Mul K] [Div K] [Neg K] [NatCast K]
variable [LT K] [LE K] [DecidableLT K] [DecidableLE K]

local notation "‹" n "›" => ((n : Nat) : K)

/-- `std::min(a,b)` = `(b < a) ? b : a` -/
def cmin (a b : K) : K := if b < a then b else a
/-- `std::max(a,b)` = `(a < b) ? b : a` -/
def cmax (a b : K) : K := if a < b then b else a
/-- `std::abs` on an ordered scalar -/
def cabs (x : K) : K := if x < ‹0› then -x else x

def Safety : K := ‹Gen.safetyNum› / ‹Gen.safetyDen›
def MinShrink : K := ‹Gen.minShrinkNum› / ‹Gen.minShrinkDen›
def MaxGrow : K := ‹Gen.maxGrowNum› / ‹Gen.maxGrowDen›
def HysteresisLow : K := ‹Gen.hystLowNum› / ‹Gen.hystLowDen›
def HysteresisHigh : K := ‹Gen.hystHighNum› / ‹Gen.hystHighDen›
def LimitLow : K := ‹Gen.limitLowNum› / ‹Gen.limitLowDen›
def LimitHigh : K := ‹Gen.limitHighNum› / ‹Gen.limitHighDen›

/-- first guess of `adjustStepSize` from the error norm ("Watch out for NaN!") -/
def firstGuess (pow : K → K → K) (acc : K) (errFinite : Bool) (err : K) (errOrder : Nat) (h : K) : K :=
  if !errFinite then MinShrink * h
  else if err ≤ ‹0› ∧ ‹0› ≤ err then MaxGrow * h
  else Safety * h * pow (acc / err) (‹1› / ‹errOrder›)

/-- `AbstractIntegratorRep::adjustStepSize`.  `errFinite` is `isFinite(err)`; `umin`/`umax` are the user
limits (`none` = −1 = not set).  Returns `(newStepSize, success)`. -/
def adjustStepSize (pow : K → K → K) (acc : K) (umin umax : Option K)
    (errFinite : Bool) (err : K) (errOrder : Nat) (hWasArtificiallyLimited : Bool) (h : K) : K × Bool :=
  let n0 : K := firstGuess pow acc errFinite err errOrder h
  let n1 : K :=
    if h < n0 then (if hWasArtificiallyLimited ∨ n0 < HysteresisHigh * h then h else n0) else n0
  let n2 : K :=
    if n1 < h then (if errFinite ∧ err ≤ acc then h else cmin n1 (HysteresisLow * h)) else n1
  let n3 := cmin n2 (MaxGrow * h)
  let n4 := cmax n3 (MinShrink * h)
  let n5 := match umin with | some m => cmax n4 m | none => n4
  let n6 := match umax with | some m => cmin n5 m | none => n5
  (n6, h ≤ n6)

/-- the choice of the trial end time in `takeOneStep`: `(t1, hWasArtificiallyLimited)` -/
def chooseT1 (t0 h tMax : K) : K × Bool :=
  if tMax < t0 + LimitLow * h then (tMax, true)
  else if t0 + LimitHigh * h < tMax then (t0 + h, false)
  else (tMax, false)

/-- `IntegratorRep::calcRelativeScaling`: `vScale[i] = |v_i|*w_i > 1 ? 1/|v_i| : w_i` -/
def relScale (v w : List K) : List K :=
  List.zipWith (fun vi wi => if ‹1› < cabs vi * wi then ‹1› / cabs vi else wi) v w

/-- `Vector::weightedNormRMS` (0 for the empty vector) -/
def wrms (sqrt : K → K) (w v : List K) : K :=
  if v.length = 0 then ‹0› else
  sqrt ((List.zipWith (fun wi vi => (wi * vi) * (wi * vi)) w v).foldl (· + ·) ‹0› / ‹v.length›)

/-- `Vector::weightedNormInf` -/
def winf (w v : List K) : K :=
  (List.zipWith (fun wi vi => cabs (wi * vi)) w v).foldl (fun m a => if m < a then a else m) ‹0›

/-- `IntegratorRep::calcErrorNorm` for a system with `N = I`: the q part is scaled by the u *weights* of the
advanced state, the u and z parts by the relative scales frozen at the start of the step; the result is the
largest of the three norms (the C++ `if` ladder computes exactly `max(max(q,u),z)` up to ties). -/
def errNorm (sqrt : K → K) (useInf : Bool) (wq su sz eq eu ez : List K) : K :=
  let nq := if useInf then winf wq eq else wrms sqrt wq eq
  let nu := if useInf then winf su eu else wrms sqrt su eu
  let nz := if useInf then winf sz ez else wrms sqrt sz ez
  if nu ≤ nq then (if nz ≤ nq then nq else nz) else (if nz ≤ nu then nu else nz)

/-- result of the attempt loop of `takeOneStep` -/
structure StepResult (K S : Type) where
  t1 : K
  y1 : S
  lastStep : K      -- `getPreviousStepSizeTaken()`
  nextStep : K      -- `getPredictedNextStepSize()`
  failures : Nat    -- error-test failures during this step
  ok : Bool         -- false iff the fuel ran out
  errNormLast : K

/-- the `do … while (!stepSucceeded)` loop of `takeOneStep` for an error-controlled method.
`attempt t1` performs `attemptDAEStep` from the saved start state and returns `(y1, errNorm, isFinite errNorm)`. -/
def takeOneStep {S : Type} (pow : K → K → K) (acc : K) (umin umax : Option K) (errOrder : Nat)
    (attempt : K → S × K × Bool) (t0 tMax : K) : Nat → K → Nat → StepResult K S
  | 0, h, nf =>
    let c := chooseT1 t0 h tMax
    let a := attempt c.1
    ⟨c.1, a.1, c.1 - t0, h, nf, false, a.2.1⟩
  | fuel + 1, h, nf =>
    let c := chooseT1 t0 h tMax
    let a := attempt c.1
    let r := adjustStepSize pow acc umin umax a.2.2 a.2.1 errOrder c.2 h
    if r.2 then ⟨c.1, a.1, c.1 - t0, r.1, nf, true, a.2.1⟩
    else takeOneStep pow acc umin umax errOrder attempt t0 tMax fuel r.1 (nf + 1)

end Controller

/-! ## Velocity Verlet (`VerletIntegratorRep::attemptDAEStep`, unconstrained system) -/
section Verlet
variable {K V : Type} [Add K] [Sub K] [Mul K] [Div K] [Neg K] [NatCast K]
variable [LT K] [LE K] [DecidableLT K] [DecidableLE K]
variable [Add V] [Sub V] [HSMul K V V]

local notation "‹" n "›" => ((n : Nat) : K)

/-- `tol = std::min(Real(1e-4), Real(0.1)*getAccuracyInUse())` -/
def verletTol (acc : K) : K := cmin (‹1› / ‹10000›) ((‹1› / ‹10›) * acc)

/-- the functional iteration refining `u` and `z` with the implicit trapezoid rule:
`for (i = 0; !converged && i < 10; ++i)`.  `deriv u z` realizes the state `(t1, q1, u, z)` and returns
`(qdot, udot, zdot)`; `d` holds the derivatives of the current `(u, z)`; `prev` is `prevChange`
(`none` = Infinity).  `vnorm` is `Vector::norm()`, `tiny` is `TinyReal`.
Returns `(u, z, derivatives, converged)`. -/
def verletIter (vnorm : V → K) (tiny tol : K) (deriv : V → V → V × V × V) (h : K) (u0 z0 udot0 zdot0 : V) :
    Nat → Nat → Option K → V → V → V × V × V → V × V × (V × V × V) × Bool
  | 0, _, _, u, z, d => (u, z, d, false)
  | fuel + 1, i, prev, u, z, d =>
    let un := u0 + (h / ‹2›) • (udot0 + d.2.1)
    let zn := z0 + (h / ‹2›) • (zdot0 + d.2.2)
    let dn := deriv un zn
    let convU := vnorm (un - u) / (vnorm u + tiny)
    let convZ := vnorm (zn - z) / (vnorm z + tiny)
    let change := cmax convU convZ
    if change ≤ tol then (un, zn, dn, true)
    else if (decide (1 < i) && (match prev with | some p => decide (p < change) | none => false)) then (un, zn, dn, false)
    else verletIter vnorm tiny tol deriv h u0 z0 udot0 zdot0 fuel (i + 1) (some change) un zn dn

/-- `VerletIntegratorRep::attemptDAEStep` without constraints / prescribed motion.
`deriv t q u z = (qdot, udot, zdot)`.  Returns `((q1,u1,z1), (qErr,uErr,zErr), converged)`; `errOrder = 3`. -/
def verletStep (vnorm : V → K) (tiny acc : K) (deriv : K → V → V → V → V × V × V) (t0 t1 : K)
    (q0 u0 z0 qdot0 udot0 zdot0 qdotdot0 : V) : (V × V × V) × (V × V × V) × Bool :=
  let h := t1 - t0
  let q1 := q0 + h • qdot0 + (h * h / ‹2›) • qdotdot0
  let u1e := u0 + h • udot0
  let z1e := z0 + h • zdot0
  let d0 := deriv t1 q1 u1e z1e
  let r := verletIter vnorm tiny (verletTol acc) (deriv t1 q1) h u0 z0 udot0 zdot0 10 0 none u1e z1e d0
  let u := r.1
  let z := r.2.1
  let qdot1 := r.2.2.1.1
  let qErr := q0 + (h / ‹2›) • (qdot0 + qdot1) - q1
  let uErr := h • (u1e - u)
  let zErr := h • (z1e - z)
  ((q1, u, z), (qErr, uErr, zErr), r.2.2.2)

end Verlet

/-! ## Executable vector type for the driver: lists with element-wise operations -/
structure LV (K : Type) where
  xs : List K
deriving Repr

namespace LV
variable {K : Type} [Add K] [Sub K] [Mul K]
instance : Add (LV K) := ⟨fun a b => ⟨List.zipWith (· + ·) a.xs b.xs⟩⟩
instance : Sub (LV K) := ⟨fun a b => ⟨List.zipWith (· - ·) a.xs b.xs⟩⟩
instance : HSMul K (LV K) (LV K) := ⟨fun s a => ⟨a.xs.map (s * ·)⟩⟩
def abs [Neg K] [NatCast K] [LT K] [DecidableLT K] (a : LV K) : LV K := ⟨a.xs.map cabs⟩
/-- `Vector::norm()`: `sqrt(Σ xᵢ²)`, summed from 0 in index order -/
def norm [NatCast K] (sqrt : K → K) (a : LV K) : K := sqrt (a.xs.foldl (fun s x => s + x * x) ((0 : Nat) : K))
end LV

end C20
