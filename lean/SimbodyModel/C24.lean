import SimbodyModel.Proto
/-!
# C24 — matrix factorizations: acceptance contracts (kind K) and the wrapper logic that is Simbody's own

LAPACK/OpenBLAS (getrf/getrs/getri, potrf/potrs, geqp3/tzrzf/ormqr/ormrz/laic1, gelss/gesdd, geev/syev) are vendored
and not modelled.  What is modelled:
* exact-rational **acceptance predicates** evaluated on the doubles the implementation returned
  (`luAccept`, `lsAccept` + `minNormAccept`, `svdAccept`, `eigAccept` + `spectrumAccept`, `invAccept`, `pinvAccept`);
* an exact Gauss–Jordan reduction over `Rat` (`rref`, `nullBasis`, `exactRank`) used as the reference for rank and null
  space of exactly representable (small-integer) matrices;
* the wrapper logic that is Simbody's: the default reciprocal-condition threshold of `FactorQTZ`/`FactorSVD`
  (`max(nRow,nCol) · eps^(7/8)`) and the rank-by-threshold count of `FactorSVDRep::computeSVD`
  (`#{i : s[i] > rcond·s[0]}`).
Matrices are lists of rows.
-/
namespace C24

abbrev Mat := List (List Rat)

def absR (x : Rat) : Rat := if x < 0 then -x else x
def dot (a b : List Rat) : Rat := (List.zipWith (· * ·) a b).foldl (· + ·) 0
def absDot (a b : List Rat) : Rat := (List.zipWith (fun x y => absR x * absR y) a b).foldl (· + ·) 0
def mulVec (A : Mat) (x : List Rat) : List Rat := A.map (fun r => dot r x)
def col (A : Mat) (j : Nat) : List Rat := A.map (fun r => r.getD j 0)
def transpose (A : Mat) (ncols : Nat) : Mat := (List.range ncols).map (col A)
def kron (i j : Nat) : Rat := if i = j then 1 else 0

/-! ## contracts -/

/-- componentwise backward-error form of `A x = b`: `|A_i·x − b_i| ≤ tol·(|A_i|·|x| + |b_i|)` for every row -/
def luAccept (tol : Rat) (A : Mat) (b x : List Rat) : Bool :=
  (A.zip b).all (fun (r, bi) => decide (absR (dot r x - bi) ≤ tol * (absDot r x + absR bi)))

/-- normal equations `Aᵀ(Ax − b) ≈ 0`, column by column:
`|Σ_i A_ij r_i| ≤ tol · Σ_i |A_ij|·(|A_i|·|x| + |b_i|)` -/
def lsAccept (tol : Rat) (A : Mat) (ncols : Nat) (b x : List Rat) : Bool :=
  let r := (A.zip b).map (fun (row, bi) => dot row x - bi)
  let s := (A.zip b).map (fun (row, bi) => absDot row x + absR bi)
  (List.range ncols).all (fun j => decide (absR (dot (col A j) r) ≤ tol * absDot (col A j) s))

/-- `x ⟂ n` for every listed vector `n`, each of which must lie *exactly* in the null space of `A`:
`A n = 0` and `(x·n)² ≤ tol²·(x·x)(n·n)` -/
def minNormAccept (tol : Rat) (A : Mat) (x : List Rat) (N : List (List Rat)) : Bool :=
  N.all (fun n => (mulVec A n).all (fun v => decide (v = 0)) &&
                  decide (dot x n * dot x n ≤ tol * tol * (dot x x) * (dot n n)))

def descendingNonneg : List Rat → Bool
  | [] => true
  | [a] => decide (0 ≤ a)
  | a :: b :: rest => decide (b ≤ a) && descendingNonneg (b :: rest)

/-- columns of `U` (given as rows of `Ut`) are orthonormal up to `tol` -/
def orthoAccept (tol : Rat) (Ut : Mat) : Bool :=
  (List.range Ut.length).all (fun i => (List.range Ut.length).all (fun j =>
    decide (absR (dot (Ut.getD i []) (Ut.getD j []) - kron i j) ≤ tol)))

/-- SVD: `S ≥ 0` descending, `UᵀU ≈ I`, `VᵀV ≈ I`, `|A_ij − Σ_k U_ik S_k Vt_kj| ≤ tol·S₀`.
`Ut` = rows are the left singular vectors, `Vt` = rows are the right singular vectors. -/
def svdAccept (tol : Rat) (A : Mat) (ncols : Nat) (Ut : Mat) (S : List Rat) (Vt : Mat) : Bool :=
  let s0 := S.getD 0 0
  descendingNonneg S && orthoAccept tol Ut && orthoAccept tol Vt &&
  (List.range A.length).all (fun i => (List.range ncols).all (fun j =>
    let rec_ := ((List.range S.length).map (fun k => (Ut.getD k []).getD i 0 * S.getD k 0 * (Vt.getD k []).getD j 0)).foldl (· + ·) 0
    decide (absR ((A.getD i []).getD j 0 - rec_) ≤ tol * s0)))

def absSum (v : List Rat) : Rat := (v.map absR).foldl (· + ·) 0
def maxAbs (v : List Rat) : Rat := (v.map absR).foldl (fun a b => if a < b then b else a) 0

/-- one complex eigenpair `(λr + iλi, vr + i·vi)` of a real matrix, normwise backward error (what a backward-stable
eigensolver delivers): every component of `A vr − (λr vr − λi vi)` and of `A vi − (λr vi + λi vr)` is at most
`tol·(‖A‖max·‖v‖₁ + |λ|·‖v‖∞)`, and `‖v‖² ≥ 10⁻⁶` (the vector is not numerically zero; normalisation is not part of the property) -/
def eigPairAccept (tol : Rat) (A : Mat) (lr li : Rat) (vr vi : List Rat) : Bool :=
  let av := (List.zipWith (fun a b => absR a + absR b) vr vi)
  let lam := absR lr + absR li
  let bound := tol * (maxAbs (A.map maxAbs) * absSum av + lam * maxAbs av)
  decide ((1 : Rat) / 1000000 ≤ dot vr vr + dot vi vi) &&
  ((List.range A.length).all (fun i =>
    let row := A.getD i []
    decide (absR (dot row vr - (lr * vr.getD i 0 - li * vi.getD i 0)) ≤ bound) &&
    decide (absR (dot row vi - (lr * vi.getD i 0 + li * vr.getD i 0)) ≤ bound)))

def sumR (v : List Rat) : Rat := v.foldl (· + ·) 0

/-- completeness of a spectrum (a pair returned twice, or one missing, changes the power sums):
`Σλ = tr A` and `Σλ² = tr A²` for the complex numbers `λ = lr + i·li` (real and imaginary parts separately) -/
def spectrumAccept (tol : Rat) (A : Mat) (lr li : List Rat) : Bool :=
  let n := A.length
  let tr := sumR ((List.range n).map (fun i => (A.getD i []).getD i 0))
  let trAbs := sumR ((List.range n).map (fun i => absR ((A.getD i []).getD i 0)))
  let tr2 := sumR ((List.range n).map (fun i => dot (A.getD i []) (col A i)))
  let tr2Abs := sumR ((List.range n).map (fun i => absDot (A.getD i []) (col A i)))
  let lam1 := sumR (List.zipWith (fun a b => absR a + absR b) lr li)
  let lam2 := sumR (List.zipWith (fun a b => a * a + b * b) lr li)
  decide (absR (sumR lr - tr) ≤ tol * (trAbs + lam1)) && decide (absR (sumR li) ≤ tol * (trAbs + lam1)) &&
  decide (absR (sumR (List.zipWith (fun a b => a * a - b * b) lr li) - tr2) ≤ tol * (tr2Abs + lam2)) &&
  decide (absR (sumR (List.zipWith (fun a b => 2 * a * b) lr li)) ≤ tol * (tr2Abs + lam2))

/-- all eigenpairs of a real matrix; `Vr`, `Vi` hold the vectors as rows; plus the power-sum completeness check -/
def eigAccept (tol : Rat) (A : Mat) (lr li : List Rat) (Vr Vi : Mat) : Bool :=
  lr.length == A.length && li.length == A.length && Vr.length == A.length && Vi.length == A.length &&
  spectrumAccept tol A lr li &&
  (List.range A.length).all (fun k => eigPairAccept tol A (lr.getD k 0) (li.getD k 0) (Vr.getD k []) (Vi.getD k []))

/-- `A·X ≈ I` and `X·A ≈ I`, normwise per row/column:
`|(AX − I)_ij| ≤ tol·(‖A_i‖₁·‖X_{·j}‖∞ + δ_ij)` and `|(XA − I)_ij| ≤ tol·(‖X_i‖∞·‖A_{·j}‖₁ + δ_ij)` -/
def invAccept (tol : Rat) (A X : Mat) : Bool :=
  let n := A.length
  let Xt := transpose X n
  let At := transpose A n
  (List.range n).all (fun i => (List.range n).all (fun j =>
    decide (absR (dot (A.getD i []) (Xt.getD j []) - kron i j) ≤ tol * (absSum (A.getD i []) * maxAbs (Xt.getD j []) + kron i j)) &&
    decide (absR (dot (X.getD i []) (At.getD j []) - kron i j) ≤ tol * (maxAbs (X.getD i []) * absSum (At.getD j []) + kron i j))))

def matMul (A B : Mat) (ncolsB : Nat) : Mat :=
  let Bt := transpose B ncolsB
  A.map (fun r => Bt.map (fun c => dot r c))

/-- Moore–Penrose conditions 1 and 2 for a reported (pseudo-)inverse `X` of a square matrix `A`, normwise:
`|A X A − A|_ij ≤ tol·‖A‖max·(1+‖X‖max‖A‖max·n²)` and the same with the roles exchanged -/
def pinvAccept (tol : Rat) (A X : Mat) : Bool :=
  let n := A.length
  let amax := maxAbs (A.map maxAbs)
  let xmax := maxAbs (X.map maxAbs)
  let nn : Rat := (n * n : Nat)
  let AXA := matMul (matMul A X n) A n
  let XAX := matMul (matMul X A n) X n
  (List.range n).all (fun i => (List.range n).all (fun j =>
    decide (absR ((AXA.getD i []).getD j 0 - (A.getD i []).getD j 0) ≤ tol * amax * (1 + nn * xmax * amax)) &&
    decide (absR ((XAX.getD i []).getD j 0 - (X.getD i []).getD j 0) ≤ tol * xmax * (1 + nn * xmax * amax))))

/-! ## exact reference: Gauss–Jordan over `Rat` -/

def rowSub (r p : List Rat) (f : Rat) : List Rat := List.zipWith (fun a b => a - f * b) r p
def rowScale (r : List Rat) (f : Rat) : List Rat := r.map (· * f)

/-- split off the first row with a non-zero entry in column `c` -/
def findPivot (c : Nat) : List (List Rat) → Option (List Rat × List (List Rat))
  | [] => none
  | r :: rs => if r.getD c 0 ≠ 0 then some (r, rs) else
      match findPivot c rs with
      | some (p, rest) => some (p, r :: rest)
      | none => none

/-- Gauss–Jordan: processes columns `c, c+1, …` (`fuel` of them); `done` = (pivot column, reduced row) pairs -/
def rrefLoop : Nat → Nat → List (Nat × List Rat) → List (List Rat) → List (Nat × List Rat)
  | 0, _, done, _ => done
  | fuel + 1, c, done, rest =>
    match findPivot c rest with
    | none => rrefLoop fuel (c + 1) done rest
    | some (p, others) =>
      let p' := rowScale p (1 / p.getD c 0)
      let elim := fun (r : List Rat) => rowSub r p' (r.getD c 0)
      rrefLoop fuel (c + 1) (done.map (fun (pc, r) => (pc, elim r)) ++ [(c, p')]) (others.map elim)

def rref (A : Mat) (ncols : Nat) : List (Nat × List Rat) := rrefLoop ncols 0 [] A
def exactRank (A : Mat) (ncols : Nat) : Nat := (rref A ncols).length

/-- one null vector per free column `f`: `n_f = 1`, `n_{pivot col of row p} = −row_p[f]`, other entries 0 -/
def nullBasis (A : Mat) (ncols : Nat) : List (List Rat) :=
  let R := rref A ncols
  let pivs := R.map (·.1)
  ((List.range ncols).filter (fun f => !pivs.contains f)).map (fun f =>
    (List.range ncols).map (fun j =>
      if j = f then 1 else
      match R.find? (fun pr => pr.1 == j) with
      | some pr => -(pr.2.getD f 0)
      | none => 0))

/-- run-time certificate for the exact reference (it is not proved correct): the null vectors have the unit pattern on the
free columns (hence are linearly independent), their number plus the rank is `ncols`, and the rank of the transpose,
computed by an independent elimination, is the same.  (That every vector is *exactly* in the kernel is checked by
`minNormAccept`.) -/
def refAccept (A : Mat) (ncols : Nat) : Bool :=
  let R := rref A ncols
  let pivs := R.map (·.1)
  let free := (List.range ncols).filter (fun f => !pivs.contains f)
  let N := nullBasis A ncols
  N.length + R.length == ncols && free.length == N.length &&
  exactRank (transpose A ncols) A.length == R.length &&
  (List.range N.length).all (fun k => (List.range free.length).all (fun l =>
    decide ((N.getD k []).getD (free.getD l 0) 0 = kron k l)))

/-! ## Simbody's own wrapper logic -/

/-- default `rcond` of `FactorQTZ(m)` / `FactorSVD(m)`: `max(nRow,nCol) * NTraits<P>::getSignificant()` -/
def defaultRcond {K : Type} [Mul K] (ofNat : Nat → K) (nRow nCol : Nat) (significant : K) : K :=
  ofNat (if nRow > nCol then nRow else nCol) * significant

/-- rank by threshold as written in `FactorSVDRep::computeSVD`: `for i<mn: if (values[i] > rcond*values[0]) rank++` -/
def svdRank {K : Type} [Mul K] [LT K] [DecidableLT K] [OfNat K 0] (values : List K) (rcond : K) : Nat :=
  (values.filter (fun v => rcond * values.getD 0 0 < v)).length

/-- `FactorQTZ(A).getRank()` for the `m×n` matrix with `A₀₀ = 1`, `A₁₁ = t` (`0 < t < 1`) and zeros elsewhere: pivoted QR
leaves `R = diag(1,t)`, the incremental condition estimate is exact for a diagonal matrix, so the second column is
accepted iff `smax·rcond < smin`, i.e. `rcond < t` -/
def qtzDiagRank {K : Type} [Mul K] [LT K] [DecidableLT K] (ofNat : Nat → K) (m n : Nat) (significant t : K) : Nat :=
  if defaultRcond ofNat m n significant < t then 2 else 1

/-- `FactorSVD(A).solve(b)` for the same matrix (`gelss` treats singular values `≤ rcond·s₁` as zero): the second
component of the solution of `A x = (1,1,0,…)` is `1/t` if `t > rcond`, else `0` -/
def svdDiagKeeps {K : Type} [Mul K] [LT K] [DecidableLT K] (ofNat : Nat → K) (m n : Nat) (significant t : K) : Bool :=
  decide (defaultRcond ofNat m n significant < t)

end C24
