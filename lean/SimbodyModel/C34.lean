import SimbodyModel.Geom
/-!
# C34 — contact surface queries: executable model of the analytic `ContactGeometry` shapes

Mirrors, formula by formula and branch by branch,
`SimTKmath/Geometry/src/ContactGeometry_{HalfSpace,Sphere,Cylinder,Ellipsoid,Torus,Brick}.cpp`,
`ContactGeometryImpl.h`, the generic `ContactGeometryImpl::calcSurfaceUnitNormal /
calcSurfaceCurvatureInDirection / calcGaussianCurvature` of `ContactGeometry.cpp` and
`Geo::Box_` (`Geo_Box.h`, reached through `ContactGeometry::Brick::getGeoBox()`).

Polymorphic in the scalar `K`: proved over ordered fields (`SimbodyProofs/C34.lean`), executed over `Float`
(`Drivers/C34.lean`).  `sqrt` is a parameter (libm is trusted-base item 7).  Comparisons use `<` only
(`a <= b` of the C++ is written `¬ (b < a)`), which is the same on non-NaN doubles.

Convention of the code: the implicit function is **positive inside**; the outward unit normal is `−∇f/|∇f|`.
-/
namespace Geom
variable {K : Type} [Add K] [Sub K] [Mul K] [Neg K] [Div K]
variable [OfNat K 0] [OfNat K 1] [OfNat K 2] [LT K] [DecidableLT K]

def absK (x : K) : K := if x < 0 then -x else x
def maxK (a b : K) : K := if a < b then b else a
def sq (x : K) : K := x * x

/-- result of `findNearestPoint(position, inside, normal)` -/
structure Nearest (K : Type) where
  pt : V3 K
  inside : Bool
  normal : V3 K

/-- result of `intersectsRay`: `none` = returned false, `some (distance, normal)` -/
abbrev RayHit (K : Type) := Option (K × V3 K)

/-- symmetric 3×3 Hessian by rows -/
abbrev Hess (K : Type) := M3 K

def diag3 (a b c : K) : M3 K := ⟨⟨a, 0, 0⟩, ⟨0, b, 0⟩, ⟨0, 0, c⟩⟩

/-! ## generic code of `ContactGeometryImpl` -/

/-- `ContactGeometryImpl::calcSurfaceUnitNormal`: `−g/|g|`, with the perturbation fallback at singular
points (`|g| < TinyReal`: try `p + SqrtEps·eᵢ`, i = x,y,z; finally the hat vector (1,1.1,1.2)) -/
def unitNormalOf (sqrt : K → K) (tiny sqrtEps : K) (hat : V3 K) (grad : V3 K → V3 K) (p : V3 K) : V3 K :=
  let fin (g : V3 K) (m : K) : V3 K := V3.sdiv (V3.neg g) m
  let g0 := grad p
  let m0 := sqrt (V3.normSq g0)
  if m0 < tiny then
    let g1 := grad ⟨p.x + sqrtEps, p.y, p.z⟩
    let m1 := sqrt (V3.normSq g1)
    if m1 < tiny then
      let g2 := grad ⟨p.x, p.y + sqrtEps, p.z⟩
      let m2 := sqrt (V3.normSq g2)
      if m2 < tiny then
        let g3 := grad ⟨p.x, p.y, p.z + sqrtEps⟩
        let m3 := sqrt (V3.normSq g3)
        if m3 < tiny then fin hat (sqrt (V3.normSq hat)) else fin g3 m3
      else fin g2 m2
    else fin g1 m1
  else fin g0 m0

/-- `ContactGeometryImpl::calcSurfaceCurvatureInDirection`: `dᵀHd / (g·nn)`, `nn` the outward unit normal;
returns 0 when `|dᵀHd| < TinyReal` -/
def curvInDir (tiny : K) (g nn : V3 K) (H : M3 K) (d : V3 K) : K :=
  let knum := V3.dot d (M3.mulVec H d)
  if absK knum < tiny then 0 else knum / V3.dot g nn

/-- `ContactGeometryImpl::calcGaussianCurvature(g, H)`: `gᵀ adj(H) g / |g|⁴` -/
def gaussCurv (g : V3 K) (H : M3 K) : K :=
  let a00 := H.r1.y * H.r2.z - sq H.r1.z
  let a01 := H.r0.z * H.r1.z - H.r0.y * H.r2.z
  let a02 := H.r0.y * H.r1.z - H.r0.z * H.r1.y
  let a11 := H.r0.x * H.r2.z - sq H.r0.z
  let a12 := H.r0.y * H.r0.z - H.r0.x * H.r1.z
  let a22 := H.r0.x * H.r1.y - sq H.r0.y
  let A : M3 K := ⟨⟨a00, a01, a02⟩, ⟨a01, a11, a12⟩, ⟨a02, a12, a22⟩⟩
  V3.dot g (M3.mulVec A g) / sq (V3.normSq g)

/-! ## half space: occupies `x > 0`, outward normal `−x` -/
namespace HS
def value (p : V3 K) : K := p.x
def grad (_p : V3 K) : V3 K := ⟨1, 0, 0⟩
def hess (_p : V3 K) : M3 K := diag3 0 0 0
def nearest (p : V3 K) : Nearest K := ⟨⟨0, p.y, p.z⟩, !decide (p.x < 0), ⟨-1, 0, 0⟩⟩
/-- `eps` is `SignificantReal` -/
def ray (eps : K) (o d : V3 K) : RayHit K :=
  if absK d.x < eps then none else
  let t := o.x / d.x
  if 0 < t then none else some (-t, ⟨-1, 0, 0⟩)
end HS

/-! ## sphere of radius `r` -/
namespace Sph
/-- `SphereImplicitFunction::calcValue` -/
def implicit (r : K) (p : V3 K) : K := 1 - (p.x * p.x + p.y * p.y + p.z * p.z) / sq r
def implicitGrad (r : K) (p : V3 K) : V3 K := ⟨-(2 * p.x) / sq r, -(2 * p.y) / sq r, -(2 * p.z) / sq r⟩
def implicitHess (r : K) : M3 K := diag3 (-2 / sq r) (-2 / sq r) (-2 / sq r)
/-- `Sphere::Impl::calcSurfaceValue` (override: `r² − |x|²`) -/
def value (r : K) (p : V3 K) : K := -(V3.dot p p) + r * r
def grad (p : V3 K) : V3 K := V3.smul (-2) p
def hess : M3 K := diag3 (-2) (-2) (-2)
def nearest (sqrt : K → K) (r : K) (p : V3 K) : Nearest K :=
  let n := V3.unit sqrt p
  ⟨⟨n.x * r, n.y * r, n.z * r⟩, !decide (r * r < V3.normSq p), n⟩
def ray (sqrt : K → K) (r : K) (o d : V3 K) : RayHit K :=
  let b := -(V3.dot d o)
  let c := V3.normSq o - r * r
  let fin (dist : K) : RayHit K := some (dist, V3.unit sqrt (V3.add o (V3.smul dist d)))
  if 0 < c then
    if 0 < b then
      let disc := b * b - c
      if disc < 0 then none else fin (b - sqrt disc)
    else none
  else
    let disc := b * b - c
    if disc < 0 then none else fin (b + sqrt disc)
def support (r : K) (d : V3 K) : V3 K := V3.smul r d
def boundRadius (r : K) : K := r
def curvature (r : K) : K := 1 / r
end Sph

/-! ## infinite cylinder of radius `r` about the z axis -/
namespace Cyl
def implicit (r : K) (p : V3 K) : K := 1 - (p.x * p.x + p.y * p.y) / sq r
def implicitGrad (r : K) (p : V3 K) : V3 K := ⟨-(2 * p.x) / sq r, -(2 * p.y) / sq r, 0⟩
def implicitHess (r : K) : M3 K := diag3 (-2 / sq r) (-2 / sq r) 0
def value (r : K) (p : V3 K) : K := -p.x * p.x - p.y * p.y + r * r
def grad (p : V3 K) : V3 K := ⟨-2 * p.x, -2 * p.y, 0⟩
def hess : M3 K := diag3 (-2) (-2) 0
/-- `normal = calcSurfaceUnitNormal(position)` (generic code on the overridden gradient) -/
def nearest (sqrt : K → K) (tiny sqrtEps : K) (hat : V3 K) (r : K) (p : V3 K) : Nearest K :=
  let n := unitNormalOf sqrt tiny sqrtEps hat grad p
  ⟨⟨n.x * r + 0, n.y * r + 0, n.z * r + p.z⟩, !decide (r * r < p.x * p.x + p.y * p.y), n⟩
def ray (sqrt : K → K) (r : K) (o d : V3 K) : RayHit K :=
  let xyv : V3 K := ⟨d.x, d.y, 0⟩
  let xyn := sqrt (V3.normSq xyv)
  let xyd := V3.sdiv xyv xyn
  let xyo : V3 K := ⟨o.x, o.y, 0⟩
  let b := -(V3.dot xyd xyo)
  let c := V3.normSq xyo - r * r
  let fin (xydist : K) : RayHit K := some (xydist / xyn, V3.unit sqrt (V3.add xyo (V3.smul xydist xyd)))
  if 0 < c then
    if 0 < b then
      let disc := b * b - c
      if disc < 0 then none else fin (b - sqrt disc)
    else none
  else
    let disc := b * b - c
    if disc < 0 then none else fin (b + sqrt disc)
/-- `Cylinder::Impl::calcSurfaceCurvatureInDirection` -/
def curvInDirection (sqrt : K → K) (tiny : K) (p d : V3 K) : K :=
  let knum := d.x * d.x + d.y * d.y
  if absK knum < tiny then 0 else knum / sqrt (p.x * p.x + p.y * p.y)
end Cyl

/-! ## ellipsoid with semi-axes `a = (a₀,a₁,a₂)` -/
namespace Ell
def value (a p : V3 K) : K := 1 - p.x * p.x / (a.x * a.x) - p.y * p.y / (a.y * a.y) - p.z * p.z / (a.z * a.z)
def grad (a p : V3 K) : V3 K := ⟨-2 * p.x / (a.x * a.x), -2 * p.y / (a.y * a.y), -2 * p.z / (a.z * a.z)⟩
def hess (a : V3 K) : M3 K := diag3 (-2 / (a.x * a.x)) (-2 / (a.y * a.y)) (-2 / (a.z * a.z))

variable [OfNat K 4] [OfNat K 8]
/-- the seven coefficients (highest degree first) of the degree-6 polynomial built by
`Ellipsoid::Impl::findNearestPoint` -/
def secularCoeffs (r p : V3 K) : List K :=
  let a2 := r.x * r.x; let b2 := r.y * r.y; let c2 := r.z * r.z
  let a4 := a2 * a2; let b4 := b2 * b2; let c4 := c2 * c2
  let px2 := p.x * p.x; let py2 := p.y * p.y; let pz2 := p.z * p.z
  let a2b2 := a2 * b2; let b2c2 := b2 * c2; let a2c2 := a2 * c2
  let a2b2c2 := a2b2 * c2
  [ 1,
    2 * (a2 + b2 + c2),
    -(a2 * px2 + b2 * py2 + c2 * pz2) + a4 + b4 + c4 + 4 * (a2b2 + b2c2 + a2c2),
    -2 * ((a2b2 + a2c2) * px2 + (a2b2 + b2c2) * py2 + (b2c2 + a2c2) * pz2)
      + 2 * (a4 * (b2 + c2) + b4 * (a2 + c2) + c4 * (a2 + b2)) + 8 * a2b2c2,
    -a2 * (b4 + 4 * b2c2 + c4) * px2 - b2 * (a4 + 4 * a2c2 + c4) * py2 - c2 * (a4 + 4 * a2b2 + b4) * pz2
      + 4 * (a2 + b2 + c2) * a2b2c2 + a4 * b4 + a4 * c4 + b4 * c4,
    2 * a2b2c2 * (-(b2 + c2) * px2 - (a2 + c2) * py2 - (a2 + b2) * pz2 + a2b2 + b2c2 + a2c2),
    a2b2c2 * (-b2c2 * px2 - a2c2 * py2 - a2b2 * pz2 + a2b2c2) ]

/-- Horner evaluation, highest degree first -/
def horner (cs : List K) (t : K) : K := cs.foldl (fun acc c => acc * t + c) 0

/-- the rest of `findNearestPoint` once `root` (the largest real root of the polynomial) is known -/
def nearestWith (r p : V3 K) (root : K) : Nearest K :=
  let a2 := r.x * r.x; let b2 := r.y * r.y; let c2 := r.z * r.z
  let res : V3 K := ⟨p.x * a2 / (root + a2), p.y * b2 / (root + b2), p.z * c2 / (root + c2)⟩
  let ri2 : V3 K := ⟨1 / a2, 1 / b2, 1 / c2⟩
  let inside := decide (p.x * p.x * ri2.x + p.y * p.y * ri2.y + p.z * p.z * ri2.z < 1)
  ⟨res, inside, ⟨res.x * ri2.x, res.y * ri2.y, res.z * ri2.z⟩⟩   -- normal before normalisation

/-- `findNearestPoint` given the root: the normal is `UnitVec3(result·ri2)` -/
def nearest (sqrt : K → K) (r p : V3 K) (root : K) : Nearest K :=
  let n := nearestWith r p root
  ⟨n.pt, n.inside, V3.unit sqrt n.normal⟩

/-- `findPointWithThisUnitNormal` = `calcSupportPoint` -/
def support (sqrt : K → K) (r n : V3 K) : V3 K :=
  let v : V3 K := ⟨n.x * r.x, n.y * r.y, n.z * r.z⟩
  V3.sdiv ⟨v.x * r.x, v.y * r.y, v.z * r.z⟩ (sqrt (V3.normSq v))

/-- `findPointInSameDirection` (`curvatures = 1/radii`) -/
def pointInSameDirection (sqrt : K → K) (r q : V3 K) : V3 K :=
  let s := 1 / sqrt (V3.normSq ⟨q.x * (1 / r.x), q.y * (1 / r.y), q.z * (1 / r.z)⟩)
  V3.smul s q

/-- `findUnitNormalAtPoint` -/
def unitNormalAt (sqrt : K → K) (r q : V3 K) : V3 K :=
  V3.unit sqrt ⟨sq (1 / r.x) * q.x, sq (1 / r.y) * q.y, sq (1 / r.z) * q.z⟩

def ray (sqrt : K → K) (r o d : V3 K) : RayHit K :=
  let rx2 := r.x * r.x
  let sy := rx2 / (r.y * r.y)
  let sz := rx2 / (r.z * r.z)
  let sd : V3 K := ⟨d.x, sy * d.y, sz * d.z⟩
  let b := -(V3.dot sd o)
  let c := o.x * o.x + sy * o.y * o.y + sz * o.z * o.z - rx2
  let fin (dist : K) : RayHit K :=
    let pos := V3.add o (V3.smul dist d)
    some (dist, V3.unit sqrt ⟨pos.x, pos.y * sy, pos.z * sz⟩)
  if 0 < c then
    if 0 < b then
      let a := V3.dot sd d
      let disc := b * b - a * c
      if disc < 0 then none else fin ((b - sqrt disc) / a)
    else none
  else
    let a := V3.dot sd d
    let disc := b * b - a * c
    if disc < 0 then none else fin ((b + sqrt disc) / a)

def boundRadius (r : V3 K) : K := maxK (maxK r.x r.y) r.z
end Ell

/-! ## torus: centre circle of radius `R` in the xy plane, tube radius `r` -/
namespace Tor
/-- `TorusImplicitFunction::calcValue` -/
def value (sqrt : K → K) (R r : K) (p : V3 K) : K :=
  1 - (sq (R - sqrt (p.x * p.x + p.y * p.y)) + p.z * p.z) / sq r
def grad (sqrt : K → K) (R r : K) (p : V3 K) : V3 K :=
  let s := sqrt (p.x * p.x + p.y * p.y)
  ⟨2 * p.x * (R - s) / (sq r * s), 2 * p.y * (R - s) / (sq r * s), -(2 * p.z) / sq r⟩
def hess (sqrt : K → K) (R r : K) (p : V3 K) : M3 K :=
  let r2 := sq r
  let xy := p.x * p.x + p.y * p.y
  let s := sqrt xy
  let den := r2 * xy * s
  let fxx := 2 * R * p.y * p.y / den - 2 / r2
  let fyy := 2 * R * p.x * p.x / den - 2 / r2
  let fxy := -(2 * R * p.x * p.y / den)
  ⟨⟨fxx, fxy, 0⟩, ⟨fxy, fyy, 0⟩, ⟨0, 0, -2 / r2⟩⟩
/-- `Torus::Impl::findNearestPoint` returns only the point (it assigns neither `inside` nor `normal`);
`eps` is `SimTK::Eps` -/
def nearestPt (sqrt : K → K) (eps R r : K) (q : V3 K) : V3 K :=
  let qz := q.x * 0 + q.y * 0 + q.z * 1           -- ~Q*Zdir
  let qproj : V3 K := ⟨q.x - 0 * qz, q.y - 0 * qz, q.z - 1 * qz⟩
  let nq := sqrt (V3.normSq qproj)
  let P : V3 K := if absK nq < eps then ⟨R, 0, 0⟩ else V3.smul R (V3.sdiv qproj nq)
  let qd := V3.unit sqrt (V3.sub q P)
  V3.add P (V3.smul r qd)
def boundRadius (R r : K) : K := r + R
end Tor

/-! ## brick = `Geo::Box_` with half lengths `h` -/
namespace Box
def containsPoint (h p : V3 K) : Bool :=
  !decide (h.x < absK p.x) && !decide (h.y < absK p.y) && !decide (h.z < absK p.z)
def clamp1 (h c : K) : K × Bool := if c < -h then (-h, false) else if h < c then (h, false) else (c, true)
/-- `findClosestPointOfSolidBox` -/
def closestSolid (h p : V3 K) : V3 K × Bool :=
  let (x, ix) := clamp1 h.x p.x
  let (y, iy) := clamp1 h.y p.y
  let (z, iz) := clamp1 h.z p.z
  (⟨x, y, z⟩, ix && iy && iz)
def toSide (h c : K) : K := if c < 0 then -h else h
/-- `findClosestPointOnSurface` -/
def closestSurface (h p : V3 K) : V3 K × Bool :=
  let (c, ins) := closestSolid h p
  if ins then
    let dx := h.x - absK c.x
    let dy := h.y - absK c.y
    let dz := h.z - absK c.z
    -- which = argmin with ties to the lowest index
    if dy < dx then
      if dz < dy then (⟨c.x, c.y, toSide h.z c.z⟩, true) else (⟨c.x, toSide h.y c.y, c.z⟩, true)
    else
      if dz < dx then (⟨c.x, c.y, toSide h.z c.z⟩, true) else (⟨toSide h.x c.x, c.y, c.z⟩, true)
  else (c, false)
/-- `findSupportPoint` = `Brick::calcSupportPoint` -/
def support (h d : V3 K) : V3 K :=
  ⟨if d.x < 0 then -h.x else h.x, if d.y < 0 then -h.y else h.y, if d.z < 0 then -h.z else h.z⟩
def distSq (h p : V3 K) : K :=
  let ax := absK p.x; let ay := absK p.y; let az := absK p.z
  let d0 : K := 0
  let d1 := if h.x < ax then d0 + sq (ax - h.x) else d0
  let d2 := if h.y < ay then d1 + sq (ay - h.y) else d1
  if h.z < az then d2 + sq (az - h.z) else d2
/-- `Brick::getBoundingSphere`: `|h|` -/
def boundRadius (sqrt : K → K) (h : V3 K) : K := sqrt (V3.normSq h)
end Box

end Geom
