/-!
# C08 — constrained forward dynamics (`calcLoopForwardDynamicsOperator`, SimbodyMatterSubsystemRep.cpp)

The algebra of the two-pass scheme, Mathlib-free and polymorphic in the scalar:

    udot0  = M⁻¹ f                       (tree pass, `calcTreeForwardDynamicsOperator`)
    rhs    = G udot0 − b                 (`calcConstraintAccelerationErrors` → udotErr)
    λ      = (G M⁻¹ ~G)⁺ rhs             (`calcGMInvGt`, `FactorQTZ::solve`)
    udot   = M⁻¹ (f − ~G λ)              (second tree pass with the constraint forces subtracted)

`minv` (the O(n) articulated-body operator `M⁻¹`, property C01/C02) and `pinv` (LAPACK's rank-revealing
complete-orthogonal factorisation with conditioning tolerance `m·ε^{3/4}`) are *parameters*: the theorems assume of
them only `M (minv x) = x`, linearity of `minv`, and the generalized-inverse contract `A (pinv (A y)) = A y`.
Vectors are functions on `Fin n`; sums are explicit folds so that the same definitions run on `Float`.

Only the rows of *enabled* constraints are assembled (`isConstraintDisabled` → `continue` in every loop of
`multiplyByPVA`, `multiplyByPVATranspose`, `calcConstraintForcesFromMultipliers`, `calcConstraintAccelerationErrors`):
`activeRows`.
-/
namespace C08

variable {K : Type} [Add K] [Sub K] [Mul K] [Neg K] [OfNat K 0]

/-- `Σ_{i<n} f i` -/
def sumFin {n : Nat} (f : Fin n → K) : K := (List.finRange n).foldr (fun i acc => f i + acc) 0

abbrev Vec (K : Type) (n : Nat) := Fin n → K
abbrev Mat (K : Type) (m n : Nat) := Fin m → Fin n → K

def vadd {n : Nat} (a b : Vec K n) : Vec K n := fun i => a i + b i
def vsub {n : Nat} (a b : Vec K n) : Vec K n := fun i => a i - b i
def vneg {n : Nat} (a : Vec K n) : Vec K n := fun i => -a i
def dot {n : Nat} (a b : Vec K n) : K := sumFin fun i => a i * b i
/-- `A x` -/
def mulVec {m n : Nat} (A : Mat K m n) (x : Vec K n) : Vec K m := fun i => sumFin fun j => A i j * x j
/-- `~A y` -/
def tmulVec {m n : Nat} (A : Mat K m n) (y : Vec K m) : Vec K n := fun j => sumFin fun i => A i j * y i

/-- result of the constrained forward-dynamics operator -/
structure FD (K : Type) (m n : Nat) where
  udot0 : Vec K n      -- unconstrained (tree) accelerations
  rhs : Vec K m        -- acceleration errors of the unconstrained solution (first `udotErr`)
  lam : Vec K m        -- multipliers
  udot : Vec K n       -- constrained accelerations

/-- `calcLoopForwardDynamicsOperator` -/
def loopFD {m n : Nat} (minv : Vec K n → Vec K n) (pinv : Vec K m → Vec K m)
    (G : Mat K m n) (f : Vec K n) (b : Vec K m) : FD K m n :=
  let udot0 := minv f
  let rhs := vsub (mulVec G udot0) b
  let lam := pinv rhs
  let udot := minv (vsub f (tmulVec G lam))
  ⟨udot0, rhs, lam, udot⟩

/-! the four stages of `loopFD` as separate definitions (`loopFD_stages` in the proofs file: `loopFD` *is* their
composition, by `rfl`).  The driver evaluates them one at a time so that every intermediate vector is materialised
once (function-valued vectors are otherwise re-evaluated on each component access: O(m²n⁵) per record). -/
def stageUdot0 {n : Nat} (minv : Vec K n → Vec K n) (f : Vec K n) : Vec K n := minv f
def stageRhs {m n : Nat} (G : Mat K m n) (udot0 : Vec K n) (b : Vec K m) : Vec K m := vsub (mulVec G udot0) b
def stageLam {m : Nat} (pinv : Vec K m → Vec K m) (rhs : Vec K m) : Vec K m := pinv rhs
def stageUdot {m n : Nat} (minv : Vec K n → Vec K n) (G : Mat K m n) (f : Vec K n) (lam : Vec K m) : Vec K n :=
  minv (vsub f (tmulVec G lam))

/-- the matrix the multipliers are solved with, as an operator: `y ↦ G M⁻¹ ~G y` (`calcGMInvGt`) -/
def gMinvGt {m n : Nat} (minv : Vec K n → Vec K n) (G : Mat K m n) (y : Vec K m) : Vec K m :=
  mulVec G (minv (tmulVec G y))

/-- final acceleration error `G udot − b` (second `udotErr`) -/
def aerr {m n : Nat} (G : Mat K m n) (b : Vec K m) (udot : Vec K n) : Vec K m := vsub (mulVec G udot) b

/-- residual of Newton's law with multipliers `M udot + ~G λ − f` (`calcResidualForce`) -/
def residual {m n : Nat} (M : Mat K n n) (G : Mat K m n) (f udot : Vec K n) (lam : Vec K m) : Vec K n :=
  vsub (vadd (mulVec M udot) (tmulVec G lam)) f

/-- assembly of the enabled rows: `act k` is the index (among all constraint equations) of the k-th enabled one -/
def activeRows {m ma n : Nat} (act : Fin ma → Fin m) (G : Mat K m n) : Mat K ma n := fun k => G (act k)
def activeVec {m ma : Nat} (act : Fin ma → Fin m) (b : Vec K m) : Vec K ma := fun k => b (act k)

/-! ### assembly over the list of all constraint equations with an enable mask

Every loop of `multiplyByPVA`, `multiplyByPVATranspose`, `calcConstraintForcesFromMultipliers`,
`calcConstraintAccelerationErrors` starts with `if (isConstraintDisabled(s,cx)) continue;` — the rows of a disabled
constraint are simply absent from `G`, `b` and the multiplier vector, the remaining rows keep their relative order.
`assemble` is that filter; `loopFDList` runs the operator on the assembled rows (this is what the driver executes on the
FULL constraint matrix exported with all constraints enabled, plus the mask). -/

/-- keep the entries whose flag is `true`, in order -/
def assemble {α : Type} (en : List Bool) (rows : List α) : List α := ((en.zip rows).filter (fun p => p.1)).map (fun p => p.2)

/-- matrix with the given rows (missing entries read as 0) -/
def ofRows {n : Nat} (rows : List (List K)) : Mat K rows.length n := fun i j => (rows.get i).getD j.val 0
/-- vector with the given entries -/
def ofList (xs : List K) : Vec K xs.length := fun i => xs.get i

/-- the operator on an already assembled system given as lists; `pinv` may depend on the assembled matrix (it is the
pseudo-inverse of `G M⁻¹ ~G` of the ENABLED rows) -/
def loopFDAsm {n : Nat} (minv : Vec K n → Vec K n) (pinv : (m : Nat) → Mat K m n → Vec K m → Vec K m)
    (ra : List (List K)) (ba : List K) (f : Vec K n) : List K × List K :=
  let G : Mat K ra.length n := ofRows ra
  let bb : Vec K ra.length := fun i => ba.getD i.val 0
  let r := loopFD minv (pinv ra.length G) G f bb
  (List.ofFn r.udot, List.ofFn r.lam)

/-- `calcLoopForwardDynamicsOperator` on lists: all constraint rows `rows`/`b` with enable flags `en` -/
def loopFDList {n : Nat} (minv : Vec K n → Vec K n) (pinv : (m : Nat) → Mat K m n → Vec K m → Vec K m)
    (en : List Bool) (rows : List (List K)) (b : List K) (f : Vec K n) : List K × List K :=
  loopFDAsm minv pinv (assemble en rows) (assemble en b) f

/-- `calcConstraintPower`: `−(Σ_B ~F_B V_B + Σ f u)`, which by virtual work (C07 `force_adjoint`, C04) is `−⟪~G λ, u⟫` -/
def power {m n : Nat} (G : Mat K m n) (lam : Vec K m) (u : Vec K n) : K := - dot (tmulVec G lam) u

end C08
