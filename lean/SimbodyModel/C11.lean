import SimbodyModel.C04
/-!
# C11 — energy and momentum bookkeeping of a multibody tree (executable model, Mathlib-free)

Continuous-time layer only (no integrator): the quantities whose rates the conservation statements are about,
in the form `MultibodySystem::calcKineticEnergy`, `SimbodyMatterSubsystem::calcSystemMomentumAboutGroundOrigin`
and `RigidBodyNode::calcJointIndependentKinematicsVel` use them (everything expressed in Ground, spatial
quantities taken about the body origin):

* `Sym3`              symmetric 3×3 (inertia about the body origin, in Ground), `SymMat33` layout
* `RB`                one rigid body: mass `m`, mass-centre offset `p = p_BC_G`, inertia `I` about the body origin
* `mulM b V`          `SpatialInertia * SpatialVec = (I ω + m p×v, m v − m p×ω)`
* `gyro b ω`          gyroscopic force `b = (ω × Iω, m ω×(ω×p))`
* `ke b V`            `½ ~V M V`
* `momG b r V`        the body's spatial momentum shifted to the Ground origin, `Phi(r) (M V)`
* `inertiaRate ω I`   `[ω]× I − I [ω]×` (rate of the Ground-frame inertia of a rotating body)
* `rotSym R I`        `R I ~R`
* `netReactionPower`, `jointPower`   joint reactions on a tree (reaction field `Rf : body ↦ SV`)

Reuses the tree, `phi`, `phiT`, `mulH`, `mulHt`, `Jet` of `SimbodyModel/C04.lean`.
-/
namespace C11
open C04

variable {K : Type} [Add K] [Sub K] [Mul K] [Neg K] [OfNat K 0] [OfNat K 1]

/-- symmetric 3×3 matrix -/
structure Sym3 (K : Type) where
  xx : K
  yy : K
  zz : K
  xy : K
  xz : K
  yz : K

def Sym3.mulV (I : Sym3 K) (w : V3 K) : V3 K :=
  ⟨I.xx * w.x + I.xy * w.y + I.xz * w.z, I.xy * w.x + I.yy * w.y + I.yz * w.z, I.xz * w.x + I.yz * w.y + I.zz * w.z⟩

/-- `[ω]× I − I [ω]×` (symmetric when `I` is) -/
def inertiaRate (w : V3 K) (I : Sym3 K) : Sym3 K :=
  -- S = [ω]× I ; result = S + Sᵀ
  let sxx := w.y * I.xz - w.z * I.xy
  let sxy := w.y * I.yz - w.z * I.yy
  let sxz := w.y * I.zz - w.z * I.yz
  let syx := w.z * I.xx - w.x * I.xz
  let syy := w.z * I.xy - w.x * I.yz
  let syz := w.z * I.xz - w.x * I.zz
  let szx := w.x * I.xy - w.y * I.xx
  let szy := w.x * I.yy - w.y * I.xy
  let szz := w.x * I.yz - w.y * I.xz
  ⟨sxx + sxx, syy + syy, szz + szz, sxy + syx, sxz + szx, syz + szy⟩

/-- `R I ~R` for `R` given by rows (any 3×3 matrix) -/
def rotSym (r0 r1 r2 : V3 K) (I : Sym3 K) : Sym3 K :=
  let a0 := I.mulV r0
  let a1 := I.mulV r1
  let a2 := I.mulV r2
  ⟨V3.dot r0 a0, V3.dot r1 a1, V3.dot r2 a2, V3.dot r0 a1, V3.dot r0 a2, V3.dot r1 a2⟩

/-- `R p` for `R` given by rows -/
def rotV (r0 r1 r2 : V3 K) (p : V3 K) : V3 K := ⟨V3.dot r0 p, V3.dot r1 p, V3.dot r2 p⟩

/-- rigid body, everything expressed in Ground and taken about the body origin -/
structure RB (K : Type) where
  m : K
  p : V3 K          -- p_BC_G, mass centre offset from the body origin
  I : Sym3 K        -- inertia about the body origin

/-- `M * V` (`SpatialInertia::operator*`): `(I ω + m p×v, m v − m p×ω)` -/
def mulM (b : RB K) (V : SV K) : SV K :=
  ⟨V3.add (b.I.mulV V.w) (V3.smul b.m (V3.cross b.p V.v)),
   V3.sub (V3.smul b.m V.v) (V3.smul b.m (V3.cross b.p V.w))⟩

/-- gyroscopic force `b = (ω × Iω, m ω×(ω×p))` -/
def gyro (b : RB K) (w : V3 K) : SV K :=
  ⟨V3.cross w (b.I.mulV w), V3.smul b.m (V3.cross w (V3.cross w b.p))⟩

/-- twice the kinetic energy `~V M V` (the factor ½ is applied by the caller: no division in the model) -/
def ke2 (b : RB K) (V : SV K) : K := SV.dot V (mulM b V)

/-- spatial momentum about the Ground origin: `Phi(r) (M V)`, `r` = body origin location -/
def momG (b : RB K) (r : V3 K) (V : SV K) : SV K := phi r (mulM b V)

/-! ## joint reactions on a tree -/
mutual
/-- `Σ_k ~(R_k − Σ_{c child of k} Phi_c R_c) V_k` over a subtree, velocities from the `J u` recursion started at
parent velocity `Vp`: the power of the net joint reaction forces on the bodies -/
def netReactionPower (Rf : Nat → SV K) (u : List K) : Tr K → SV K → K
  | .node b cs, Vp =>
    let V := SV.add (phiT b.l Vp) (mulH b.H (u.drop b.u0))
    let kids := netReactionPowers Rf u cs V
    (SV.dot (Rf b.id) V - kids.1) + kids.2
/-- for siblings: (`Σ_c ~(Phi_c R_c) V`, `Σ_c` power of subtree `c`) -/
def netReactionPowers (Rf : Nat → SV K) (u : List K) : List (Tr K) → SV K → K × K
  | [], _ => (0, 0)
  | c :: cs, V =>
    let r := netReactionPowers Rf u cs V
    (SV.dot (phi c.bd.l (Rf c.bd.id)) V + r.1, netReactionPower Rf u c V + r.2)
end

mutual
/-- `Σ_k (~H_k R_k) · u_k`: power of the mobility-space projections of the reactions -/
def jointPower (Rf : Nat → SV K) (u : List K) : Tr K → K
  | .node b cs => dotL (mulHt b.H (Rf b.id)) (u.drop b.u0) + jointPowers Rf u cs
def jointPowers (Rf : Nat → SV K) (u : List K) : List (Tr K) → K
  | [] => 0
  | c :: cs => jointPower Rf u c + jointPowers Rf u cs
end

end C11
