import SimbodyModel.Spatial
/-!
# C28 — angular-velocity ↔ coordinate-rate helpers of `Rotation_` (Rotation.h), Mathlib-free

All static helpers relating angular velocity (and its derivative) to body-fixed XYZ Euler-angle rates, body-fixed
3-2-1 rates and quaternion rates, mirrored formula by formula.  The angles enter as trig pairs
(`t0,t1,t2` = pairs of `q[0],q[1],q[2]`); `ooc1` is the caller-supplied `1/cos(q[1])` where the C++ takes it as an
argument.  Polymorphic in the scalar, so the same code runs on `Jet K` (time derivatives) and on `Float`.
-/
namespace Spatial

/-- `Mat<4,3,P>` as four rows -/
@[ext] structure Mat43 (K : Type) where
  r0 : Vec3 K
  r1 : Vec3 K
  r2 : Vec3 K
  r3 : Vec3 K
deriving Repr

/-- `Mat<3,4,P>` as three rows -/
@[ext] structure Mat34 (K : Type) where
  r0 : Quaternion K
  r1 : Quaternion K
  r2 : Quaternion K
deriving Repr

def Mat43.map {α β : Type} (f : α → β) (m : Mat43 α) : Mat43 β := ⟨m.r0.map f, m.r1.map f, m.r2.map f, m.r3.map f⟩

section
variable {K : Type} [Add K] [Sub K] [Mul K] [Neg K] [Div K] [OfNat K 0] [OfNat K 1] [OfNat K 2] [OfNat K 4]

def Mat43.mulVec (m : Mat43 K) (v : Vec3 K) : Quaternion K := ⟨m.r0.dot v, m.r1.dot v, m.r2.dot v, m.r3.dot v⟩
def Mat34.mulVec (m : Mat34 K) (q : Quaternion K) : Vec3 K := ⟨m.r0.dot q, m.r1.dot q, m.r2.dot q⟩

namespace Rotation

/-! ## Body-fixed XYZ: products with N, Nᵀ, N⁻¹, N⁻ᵀ (angular velocity expressed in the parent) -/

/-- `multiplyByBodyXYZ_N_P(cosxy, sinxy, oocosy, w_PB)` -/
def multiplyByBodyXYZ_N_P (t0 t1 : Trig K) (oocosy : K) (w : Vec3 K) : Vec3 K :=
  let t := (t0.s * w.y - t0.c * w.z) * oocosy
  ⟨w.x + t * t1.s, t0.c * w.y + t0.s * w.z, -t⟩

/-- `multiplyByBodyXYZ_NT_P(cosxy, sinxy, oocosy, q)` -/
def multiplyByBodyXYZ_NT_P (t0 t1 : Trig K) (oocosy : K) (q : Vec3 K) : Vec3 K :=
  let t := (q.x * t1.s - q.z) * oocosy
  ⟨q.x, t0.c * q.y + t * t0.s, t0.s * q.y - t * t0.c⟩

/-- `multiplyByBodyXYZ_NInv_P(cosxy, sinxy, qdot)` -/
def multiplyByBodyXYZ_NInv_P (t0 t1 : Trig K) (qd : Vec3 K) : Vec3 K :=
  let c1q2 := t1.c * qd.z
  ⟨qd.x + t1.s * qd.z, t0.c * qd.y - t0.s * c1q2, t0.s * qd.y + t0.c * c1q2⟩

/-- `multiplyByBodyXYZ_NInvT_P(cosxy, sinxy, v_P)` -/
def multiplyByBodyXYZ_NInvT_P (t0 t1 : Trig K) (w : Vec3 K) : Vec3 K :=
  ⟨w.x, t0.c * w.y + t0.s * w.z, t1.s * w.x - t0.s * t1.c * w.y + t0.c * t1.c * w.z⟩

/-! ## Body-fixed XYZ: the matrices -/

/-- `calcNForBodyXYZInBodyFrame(cq, sq)` (uses only `q[1]`, `q[2]`) -/
def calcNForBodyXYZInBodyFrame (t1 t2 : Trig K) : Mat33 K :=
  let ooc1 := 1 / t1.c
  let s2oc1 := t2.s * ooc1
  let c2oc1 := t2.c * ooc1
  ⟨c2oc1, -s2oc1, 0,
   t2.s, t2.c, 0,
   -t1.s * c2oc1, t1.s * s2oc1, 1⟩

/-- `calcNForBodyXYZInParentFrame(cq, sq)` (uses only `q[0]`, `q[1]`) -/
def calcNForBodyXYZInParentFrame (t0 t1 : Trig K) : Mat33 K :=
  let ooc1 := 1 / t1.c
  let s0oc1 := t0.s * ooc1
  let c0oc1 := t0.c * ooc1
  ⟨1, t1.s * s0oc1, -t1.s * c0oc1,
   0, t0.c, t0.s,
   0, -s0oc1, c0oc1⟩

/-- `calcNDotForBodyXYZInBodyFrame(cq, sq, qdot)` -/
def calcNDotForBodyXYZInBodyFrame (t1 t2 : Trig K) (qd : Vec3 K) : Mat33 K :=
  let ooc1 := 1 / t1.c
  let s2oc1 := t2.s * ooc1
  let c2oc1 := t2.c * ooc1
  let t := qd.y * t1.s * ooc1
  let a := t * s2oc1 + qd.z * c2oc1
  let b := t * c2oc1 - qd.z * s2oc1
  ⟨b, -a, 0,
   qd.z * t2.c, -qd.z * t2.s, 0,
   -(t1.s * b + qd.y * t2.c), t1.s * a + qd.y * t2.s, 0⟩

/-- `calcNDotForBodyXYZInParentFrame(cq, sq, ooc1, qdot)` -/
def calcNDotForBodyXYZInParentFrame (t0 t1 : Trig K) (ooc1 : K) (qd : Vec3 K) : Mat33 K :=
  let s0oc1 := t0.s * ooc1
  let c0oc1 := t0.c * ooc1
  let t := qd.y * t1.s * ooc1
  let a := t * s0oc1 + qd.x * c0oc1
  let b := t * c0oc1 - qd.x * s0oc1
  ⟨0, t1.s * a + qd.y * t0.s, -(t1.s * b + qd.y * t0.c),
   0, -qd.x * t0.s, qd.x * t0.c,
   0, -a, b⟩

/-- `calcNInvForBodyXYZInBodyFrame(cq, sq)` -/
def calcNInvForBodyXYZInBodyFrame (t1 t2 : Trig K) : Mat33 K :=
  ⟨t1.c * t2.c, t2.s, 0,
   -t1.c * t2.s, t2.c, 0,
   t1.s, 0, 1⟩

/-- `calcNInvForBodyXYZInParentFrame(cq, sq)` -/
def calcNInvForBodyXYZInParentFrame (t0 t1 : Trig K) : Mat33 K :=
  ⟨1, 0, t1.s,
   0, t0.c, -t0.s * t1.c,
   0, t0.s, t0.c * t1.c⟩

/-! ## Body-fixed XYZ: conversions -/

/-- `convertAngVelInBodyFrameToBodyXYZDot(cq, sq, w_PB_B)` -/
def convertAngVelInBodyFrameToBodyXYZDot (t1 t2 : Trig K) (w : Vec3 K) : Vec3 K :=
  (calcNForBodyXYZInBodyFrame t1 t2).mulVec w

/-- `convertBodyXYZDotToAngVelInBodyFrame(cq, sq, qdot)` -/
def convertBodyXYZDotToAngVelInBodyFrame (t1 t2 : Trig K) (qd : Vec3 K) : Vec3 K :=
  (calcNInvForBodyXYZInBodyFrame t1 t2).mulVec qd

/-- `convertAngVelDotInBodyFrameToBodyXYZDotDot(cq, sq, w_PB_B, wdot_PB_B)` -/
def convertAngVelDotInBodyFrameToBodyXYZDotDot (t1 t2 : Trig K) (w wdot : Vec3 K) : Vec3 K :=
  let N := calcNForBodyXYZInBodyFrame t1 t2
  let qdot := N.mulVec w
  let NDot := calcNDotForBodyXYZInBodyFrame t1 t2 qdot
  (N.mulVec wdot).add (NDot.mulVec w)

/-- `convertAngVelInParentToBodyXYZDot` -/
def convertAngVelInParentToBodyXYZDot (t0 t1 : Trig K) (oocosy : K) (w : Vec3 K) : Vec3 K :=
  multiplyByBodyXYZ_N_P t0 t1 oocosy w

/-- `convertAngAccInParentToBodyXYZDotDot(cosxy, sinxy, oocosy, qdot, b_PB)` -/
def convertAngAccInParentToBodyXYZDotDot (t0 t1 : Trig K) (oocosy : K) (qd b : Vec3 K) : Vec3 K :=
  let Nb := multiplyByBodyXYZ_N_P t0 t1 oocosy b
  let q1oc1 := qd.y * oocosy
  let NDotw : Vec3 K := ⟨(qd.x * t1.s - qd.z) * q1oc1, qd.x * qd.z * t1.c, (qd.z * t1.s - qd.x) * q1oc1⟩
  Nb.add NDotw

/-! ## Body-fixed 3-2-1 (Z-Y-X), angular velocity expressed in the body -/

/-- the matrix `E` of `convertAngVelToBodyFixed321Dot` -/
def E321 (t1 t2 : Trig K) : Mat33 K :=
  let ooc1 := 1 / t1.c
  let s2oc1 := t2.s * ooc1
  let c2oc1 := t2.c * ooc1
  ⟨0, s2oc1, c2oc1,
   0, t2.c, -t2.s,
   1, t1.s * s2oc1, t1.s * c2oc1⟩

/-- `convertAngVelToBodyFixed321Dot(q, w_PB_B)` -/
def convertAngVelToBodyFixed321Dot (t1 t2 : Trig K) (w : Vec3 K) : Vec3 K := (E321 t1 t2).mulVec w

/-- the matrix `Einv` of `convertBodyFixed321DotToAngVel` -/
def Einv321 (t1 t2 : Trig K) : Mat33 K :=
  ⟨-t1.s, 0, 1,
   t1.c * t2.s, t2.c, 0,
   t1.c * t2.c, -t2.s, 0⟩

/-- `convertBodyFixed321DotToAngVel(q, qd)` -/
def convertBodyFixed321DotToAngVel (t1 t2 : Trig K) (qd : Vec3 K) : Vec3 K := (Einv321 t1 t2).mulVec qd

/-- `convertAngVelDotToBodyFixed321DotDot(q, w_PB_B, wdot_PB_B)` -/
def convertAngVelDotToBodyFixed321DotDot (t1 t2 : Trig K) (w wdot : Vec3 K) : Vec3 K :=
  let ooc1 := 1 / t1.c
  let s2oc1 := t2.s * ooc1
  let c2oc1 := t2.c * ooc1
  let s1oc1 := t1.s * ooc1
  let E := E321 t1 t2
  let qdot := E.mulVec w
  let t := qdot.y * s1oc1
  let a := t * s2oc1 + qdot.z * c2oc1
  let b := t * c2oc1 - qdot.z * s2oc1
  let Edot : Mat33 K :=
    ⟨0, a, b,
     0, -qdot.z * t2.s, -qdot.z * t2.c,
     0, t1.s * a + qdot.y * t2.s, t1.s * b + qdot.y * t2.c⟩
  (E.mulVec wdot).add (Edot.mulVec w)

/-! ## Quaternions (possibly un-normalised), angular velocity expressed in the parent -/

/-- `calcUnnormalizedNForQuaternion(q)` -/
def calcUnnormalizedNForQuaternion (q : Quaternion K) : Mat43 K :=
  let e0 := q.w / 2
  let e1 := q.x / 2
  let e2 := q.y / 2
  let e3 := q.z / 2
  let ne1 := -e1
  let ne2 := -e2
  let ne3 := -e3
  ⟨⟨ne1, ne2, ne3⟩, ⟨e0, e3, ne2⟩, ⟨ne3, e0, e1⟩, ⟨e2, ne1, e0⟩⟩

/-- `calcUnnormalizedNDotForQuaternion(qdot)` -/
def calcUnnormalizedNDotForQuaternion (qd : Quaternion K) : Mat43 K :=
  let ed0 := qd.w / 2
  let ed1 := qd.x / 2
  let ed2 := qd.y / 2
  let ed3 := qd.z / 2
  let ned1 := -ed1
  let ned2 := -ed2
  let ned3 := -ed3
  ⟨⟨ned1, ned2, ned3⟩, ⟨ed0, ed3, ned2⟩, ⟨ned3, ed0, ed1⟩, ⟨ed2, ned1, ed0⟩⟩

/-- `calcUnnormalizedNInvForQuaternion(q)` -/
def calcUnnormalizedNInvForQuaternion (q : Quaternion K) : Mat34 K :=
  let e0 := 2 * q.w
  let e1 := 2 * q.x
  let e2 := 2 * q.y
  let e3 := 2 * q.z
  let ne1 := -e1
  let ne2 := -e2
  let ne3 := -e3
  ⟨⟨ne1, e0, ne3, e2⟩, ⟨ne2, e3, e0, ne1⟩, ⟨ne3, ne2, e1, e0⟩⟩

/-- `convertAngVelToQuaternionDot(q, w_PB_P)` -/
def convertAngVelToQuaternionDot (q : Quaternion K) (w : Vec3 K) : Quaternion K :=
  (calcUnnormalizedNForQuaternion q).mulVec w

/-- `convertQuaternionDotToAngVel(q, qdot)` -/
def convertQuaternionDotToAngVel (q qd : Quaternion K) : Vec3 K :=
  (calcUnnormalizedNInvForQuaternion q).mulVec qd

/-- `convertAngVelDotToQuaternionDotDot(q, w_PB, b_PB)`: `N b + (-.25 |w|²) q` -/
def convertAngVelDotToQuaternionDotDot (q : Quaternion K) (w b : Vec3 K) : Quaternion K :=
  let Nb := (calcUnnormalizedNForQuaternion q).mulVec b
  let NDotw := Quaternion.smul (-(1 / 4) * w.normSq) q
  Nb.add NDotw

end Rotation
end
end Spatial
