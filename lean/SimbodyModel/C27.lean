import SimbodyModel.Spatial
/-!
# C27 — model entry point

The model of property C27 (rotations, quaternions, transforms, unit vectors) is the shared family file
`SimbodyModel/Spatial.lean` (namespace `Spatial`): `Rotation.*`, `Quaternion.*`, `Transform.*`, `Vec3.perp`.
This file re-exports it under the per-property name the pipeline expects.
-/
