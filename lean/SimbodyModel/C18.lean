import SimbodyModel.Gen.StateCopy
/-!
# C18 — executable model of `SimTK::State` stage / version / cache bookkeeping  (kind D, exact)

Transcription (branch by branch) of
  SimTKcommon/Simulation/include/SimTKcommon/internal/StateImpl.h   (StateImpl, PerSubsystemInfo,
      CacheEntryInfo, DiscreteVarInfo, ListOfDependents, inline State:: forwarding methods)
  SimTKcommon/Simulation/src/State.cpp                               (allocation stacks, restoreToStage,
      copyFrom, invalidateJustSystemStage, advanceSystemToStage, autoUpdateDiscreteVariables,
      registerWithPrerequisites / unregisterWithPrerequisites)
Stages are `Nat` 0..10 (Empty Topology Model Instance Time Position Velocity Dynamics Acceleration
Report Infinity).  Values are opaque integer tokens.  Mathlib-free.

Conventions
* `popBack` is `popAllocationStackBackToStage` / the counting loop of `copyAllocationStackThroughStage`.
* cross-entry effects of the C++ (`ListOfDependents::notePrerequisiteChange` recursion, registration and
  un-registration with prerequisites) are expressed as *global maps* over all entries:
  `reach` collects the multiset of `invalidate()` calls the recursion performs (it only reads the
  dependents lists, which `invalidate()` never changes), `invalidateMany` applies them.
* the five per-stage event-trigger stacks are one list (pushes are in allocation order, so popping the
  single list back to a stage is the same as popping each per-stage stack).
* field `fresh` of a cache entry is a ghost (no C++ counterpart, never read by the model's observable part):
  "marked valid since the last time its depends-on stage was invalidated / `invalidate()` was called on it /
  it was copied without its depends-on stage".
* `Gen.copyBumpsAbove` is re-extracted from State.cpp on every run (translator, checks/C18.py).
* fields `gQ gU gZ gDV gCE` of a cache entry are the C++ fields `m_qVersion … m_cacheEntryVersions`
  which the C++ records only when compiled without NDEBUG (`recordPrerequisiteVersions`); the model always
  records them (they are not observable), so that the theorem "the Debug double check can never fire" can
  be stated.
-/
namespace C18

abbrev Key := Nat × Nat

/-! ## generic list helpers (own definitions so that the proofs do not depend on library lemma names) -/

def mapIFrom {α β : Type} (f : Nat → α → β) : Nat → List α → List β
  | _, [] => []
  | n, x :: xs => f n x :: mapIFrom f (n + 1) xs

def mapI {α β : Type} (f : Nat → α → β) (l : List α) : List β := mapIFrom f 0 l

def modAt {α : Type} : List α → Nat → (α → α) → List α
  | [], _, _ => []
  | x :: xs, 0, f => f x :: xs
  | x :: xs, i + 1, f => x :: modAt xs i f

/-- `popAllocationStackBackToStage`: drop entries from the end while their allocation stage is `> g`. -/
def popBack {α : Type} (alloc : α → Nat) (g : Nat) : List α → List α
  | [] => []
  | x :: xs =>
    match popBack alloc g xs with
    | [] => if alloc x > g then [] else [x]
    | r :: rs => x :: r :: rs

/-- `++version` for the stages `lo..hi` (inclusive). -/
def bump (vs : List Nat) (lo hi : Nat) : List Nat :=
  mapI (fun i v => if lo ≤ i ∧ i ≤ hi then v + 1 else v) vs

def setAt (l : List Int) (i : Nat) (v : Int) : List Int := modAt l i (fun _ => v)

/-! ## per-entry records -/

/-- `CacheEntryInfo` -/
structure CE where
  alloc : Nat
  dep : Nat
  comp : Nat
  assoc : Option Nat := none          -- m_associatedVar
  preQ : Bool := false
  preU : Bool := false
  preZ : Bool := false
  preDV : List Key := []
  preCE : List Key := []
  deps : List Key := []               -- m_dependents (ResetOnCopy)
  value : Int := 0
  valVer : Nat := 1
  stamp : Nat := 0                    -- m_dependsOnVersionWhenLastComputed
  flag : Bool := true                 -- m_isUpToDateWithPrerequisites
  gQ : Nat := 0
  gU : Nat := 0
  gZ : Nat := 0
  gDV : List Nat := []
  gCE : List Nat := []
  fresh : Bool := false               -- ghost: marked since the last invalidation (see `CE.invN`, `Sub.restore`, `Sub.copyOf`)
deriving Repr, DecidableEq, Inhabited

def CE.hasPre (e : CE) : Bool := e.preQ || e.preU || e.preZ || !e.preDV.isEmpty || !e.preCE.isEmpty

/-- `CacheEntryInfo::invalidate()` executed `n` times -/
def CE.invN (e : CE) (n : Nat) : CE :=
  if n = 0 then e else { e with stamp := 0, flag := false, valVer := e.valVer + n, fresh := false }

/-- ghost bookkeeping of `restoreToStage(g)`: by the *specification* ("valid only if marked after the last change to
its depends-on stage") every surviving entry whose depends-on stage is above `g` loses its freshness — also when the
subsystem had not reached that stage (`cur` is kept as an argument only to name that case in the proofs). -/
def CE.unfresh (e : CE) (g _cur : Nat) : CE :=
  if g < e.dep then { e with fresh := false } else e

/-- `DiscreteVarInfo` -/
structure DV where
  alloc : Nat
  inval : Nat
  auto : Option Nat := none           -- m_autoUpdateEntry
  deps : List Key := []
  value : Int := 0
  valVer : Nat := 1
  tLast : Option Int := none          -- m_timeLastUpdated (none = NaN)
deriving Repr, DecidableEq, Inhabited

/-- `ContinuousVarInfo` (q, u or z) -/
structure CV where
  alloc : Nat
  vals : List Int
deriving Repr, DecidableEq, Inhabited

/-- `ConstraintErrInfo` (qerr, uerr, udoterr) -/
structure Al where
  alloc : Nat
  n : Nat
deriving Repr, DecidableEq, Inhabited

/-- `TriggerInfo` (with the stage whose stack it lives on) -/
structure Tr where
  alloc : Nat
  stage : Nat
  n : Nat
deriving Repr, DecidableEq, Inhabited

/-- `PerSubsystemInfo` -/
structure Sub where
  cur : Nat := 0
  vers : List Nat := List.replicate 11 1
  qInfo : List CV := []
  uInfo : List CV := []
  zInfo : List CV := []
  qerrInfo : List Al := []
  uerrInfo : List Al := []
  udoterrInfo : List Al := []
  trig : List Tr := []
  dvs : List DV := []
  ces : List CE := []
deriving Repr, DecidableEq, Inhabited

/-- `StateImpl` -/
structure St where
  sys : Nat := 0
  sysVers : List Nat := List.replicate 11 1
  subs : List Sub := []
  t : Option Int := none
  q : List Int := []
  u : List Int := []
  z : List Int := []
  qVer : Nat := 1
  uVer : Nat := 1
  zVer : Nat := 1
  qDeps : List Key := []
  uDeps : List Key := []
  zDeps : List Key := []
deriving Repr, DecidableEq, Inhabited

/-! ## accessors -/

def St.sub? (st : St) (s : Nat) : Option Sub := st.subs[s]?
def St.ce? (st : St) (k : Key) : Option CE := (st.subs[k.1]?).bind (fun sb => sb.ces[k.2]?)
def St.dv? (st : St) (k : Key) : Option DV := (st.subs[k.1]?).bind (fun sb => sb.dvs[k.2]?)

def Sub.ver (sb : Sub) (g : Nat) : Nat := sb.vers.getD g 0

/-- `CacheEntryInfo::isUpToDate` -/
def CE.upToDate (e : CE) (sb : Sub) : Bool :=
  if sb.cur ≥ e.comp then true
  else if sb.cur < e.dep then false
  else sb.ver e.dep == e.stamp && e.flag

def St.isRealized (st : St) (k : Key) : Bool :=
  match st.subs[k.1]? with
  | some sb => match sb.ces[k.2]? with
    | some e => e.upToDate sb
    | none => false
  | none => false

/-! ## global maps over all entries -/

def St.mapCE (st : St) (f : Key → CE → CE) : St :=
  { st with subs := mapI (fun s sb => { sb with ces := mapI (fun c e => f (s, c) e) sb.ces }) st.subs }

def St.mapDV (st : St) (f : Key → DV → DV) : St :=
  { st with subs := mapI (fun s sb => { sb with dvs := mapI (fun d v => f (s, d) v) sb.dvs }) st.subs }

def St.modSub (st : St) (s : Nat) (f : Sub → Sub) : St := { st with subs := modAt st.subs s f }
def St.modCE (st : St) (k : Key) (f : CE → CE) : St :=
  st.modSub k.1 (fun sb => { sb with ces := modAt sb.ces k.2 f })
def St.modDV (st : St) (k : Key) (f : DV → DV) : St :=
  st.modSub k.1 (fun sb => { sb with dvs := modAt sb.dvs k.2 f })

def St.numCE (st : St) : Nat := (st.subs.map (fun sb => sb.ces.length)).sum

def St.depsOf (st : St) (k : Key) : List Key :=
  match st.ce? k with
  | some e => e.deps
  | none => []

/-- the multiset of `CacheEntryInfo::invalidate()` calls made by
`ListOfDependents::notePrerequisiteChange` on the list `ks` (each call recursively notifies the entry's own
dependents).  `fuel` bounds the recursion depth (the dependency graph is acyclic: a prerequisite exists
before its dependent is allocated); callers pass `numCE + 1`. -/
def reach (st : St) : Nat → List Key → List Key
  | 0, _ => []
  | f + 1, ks => ks ++ ks.flatMap (fun k => reach st f (st.depsOf k))

def St.invalidateMany (st : St) (ks : List Key) : St :=
  st.mapCE (fun k e => e.invN (ks.count k))

/-- `deps.notePrerequisiteChange(*this)` -/
def St.notify (st : St) (ks : List Key) : St :=
  st.invalidateMany (reach st (st.numCE + 1) ks)

def St.noteQ (st : St) : St := ({ st with qVer := st.qVer + 1 }).notify st.qDeps
def St.noteU (st : St) : St := ({ st with uVer := st.uVer + 1 }).notify st.uDeps
def St.noteZ (st : St) : St := ({ st with zVer := st.zVer + 1 }).notify st.zDeps
def St.noteY (st : St) : St := ((st.noteQ).noteU).noteZ

/-- `CacheEntryInfo::registerWithPrerequisites` (the part that touches *other* objects: add key `k` to the
dependents list of each prerequisite of `e`) -/
def St.register (st : St) (k : Key) (e : CE) : St :=
  let st1 := { st with qDeps := if e.preQ then st.qDeps ++ [k] else st.qDeps,
                       uDeps := if e.preU then st.uDeps ++ [k] else st.uDeps,
                       zDeps := if e.preZ then st.zDeps ++ [k] else st.zDeps }
  let st2 := st1.mapDV (fun dk v => if e.preDV.contains dk then { v with deps := v.deps ++ [k] } else v)
  st2.mapCE (fun ck c => if e.preCE.contains ck then { c with deps := c.deps ++ [k] } else c)

/-- `CacheEntryInfo::unregisterWithPrerequisites` (prerequisites that no longer exist are skipped by the
`hasDiscreteVar` / `hasCacheEntry` tests: the maps only visit existing entries) -/
def St.unregister (st : St) (k : Key) (e : CE) : St :=
  let st1 := { st with qDeps := if e.preQ then st.qDeps.erase k else st.qDeps,
                       uDeps := if e.preU then st.uDeps.erase k else st.uDeps,
                       zDeps := if e.preZ then st.zDeps.erase k else st.zDeps }
  let st2 := st1.mapDV (fun dk v => if e.preDV.contains dk then { v with deps := v.deps.erase k } else v)
  st2.mapCE (fun ck c => if e.preCE.contains ck then { c with deps := c.deps.erase k } else c)

/-! ## PerSubsystemInfo::restoreToStage (the part local to the subsystem) -/

def Sub.restore (sb : Sub) (g : Nat) : Sub :=
  if sb.cur ≤ g then { sb with ces := sb.ces.map (fun e => e.unfresh g sb.cur) }   -- early return; ghost only
  else if g = 0 then {}            -- initialize(): all stacks cleared, stage versions reset to 1
  else { sb with
    cur := g,
    vers := bump sb.vers (g + 1) sb.cur,
    qInfo := popBack CV.alloc g sb.qInfo,
    uInfo := popBack CV.alloc g sb.uInfo,
    zInfo := popBack CV.alloc g sb.zInfo,
    qerrInfo := popBack Al.alloc g sb.qerrInfo,
    uerrInfo := popBack Al.alloc g sb.uerrInfo,
    udoterrInfo := popBack Al.alloc g sb.udoterrInfo,
    trig := popBack Tr.alloc g sb.trig,
    dvs := popBack DV.alloc g sb.dvs,
    -- ghost: the depends-on stage of these entries is being invalidated ("the validity indicator is cleared
    -- automatically whenever the Subsystem stage is reduced below `earliest`")
    ces := (popBack CE.alloc g sb.ces).map (fun e => e.unfresh g sb.cur) }

/-- the cache entries (with their keys) that `restoreToStage(g)` destructs in subsystem `s` -/
def Sub.popped (sb : Sub) (s : Nat) (g : Nat) : List (Key × CE) :=
  let keep := (sb.restore g).ces.length
  (mapI (fun c e => ((s, c), e)) sb.ces).drop keep

def St.poppedAll (st : St) (g : Nat) : List (Key × CE) :=
  (mapI (fun s sb => sb.popped s g) st.subs).flatten

/-- `StateImpl::invalidateJustSystemStage` -/
def St.invalSys (st : St) (g : Nat) : St :=
  if st.sys < g then st else
  let st1 := if 2 ≤ st.sys ∧ g ≤ 2 then ({ st with q := [], u := [], z := [] }).noteY else st
  let st2 := if g ≤ 1 then { st1 with t := none } else st1
  { st2 with sysVers := bump st2.sysVers g st.sys, sys := g - 1 }

/-- `StateImpl::invalidateAll(g)` (also `invalidateAllCacheAtOrAbove`) -/
def St.invalAll (st : St) (g : Nat) : St :=
  let st1 := st.invalSys g
  let popped := st1.poppedAll (g - 1)
  let st2 := { st1 with subs := st1.subs.map (fun sb => sb.restore (g - 1)) }
  popped.foldl (fun acc ke => acc.unregister ke.1 ke.2) st2

/-! ## StateImpl::advanceSystemToStage -/

def St.advSys (st : St) (g : Nat) : St :=
  if g = 1 then { st with t := some 0, sys := 1 }
  else if g = 2 then
    let st1 := { st with
      q := st.subs.flatMap (fun (sb : Sub) => sb.qInfo.flatMap CV.vals),
      u := st.subs.flatMap (fun (sb : Sub) => sb.uInfo.flatMap CV.vals),
      z := st.subs.flatMap (fun (sb : Sub) => sb.zInfo.flatMap CV.vals) }
    let st2 := ((st1.notify st1.qDeps).notify st1.uDeps).notify st1.zDeps
    { st2 with sys := 2 }
  else { st with sys := g }

/-! ## single-State operations -/

inductive SOp where
  | advSub (s g : Nat)
  | advSys (g : Nat)
  | invalAll (g : Nat)
  | invalCache (g : Nat)
  | allocQ (s : Nat) (vals : List Int)
  | allocU (s : Nat) (vals : List Int)
  | allocZ (s : Nat) (vals : List Int)
  | allocQErr (s n : Nat)
  | allocUErr (s n : Nat)
  | allocUDotErr (s n : Nat)
  | allocTrig (s g n : Nat)
  | allocDV (s inv : Nat) (v : Int)
  | allocAutoDV (s inv : Nat) (v : Int) (updDep : Nat)
  | allocCE (s dep comp : Nat) (v : Int)
  | allocCEpre (s dep comp : Nat) (q u z : Bool) (dvs ces : List Key) (v : Int)
  | mark (s c : Nat)
  | unmark (s c : Nat)
  | markDVUpd (s d : Nat)
  | setCE (s c : Nat) (v : Int)
  | getCE (s c : Nat)
  | setDV (s d : Nat) (v : Int)
  | updQ (w : Option (Nat × Int))
  | updU (w : Option (Nat × Int))
  | updZ (w : Option (Nat × Int))
  | updQsub (s : Nat) (w : Option (Nat × Int))
  | updUsub (s : Nat) (w : Option (Nat × Int))
  | updZsub (s : Nat) (w : Option (Nat × Int))
  | updY
  | setTime (v : Int)
  | updUW | updZW | updUWsub (s : Nat) | updZWsub (s : Nat)
  | updQErrW | updUErrW | updQErrWsub (s : Nat) | updUErrWsub (s : Nat)
  | autoUpdate
  | setTopoVer (v : Nat)
deriving Repr, DecidableEq, Inhabited

/-- result of an operation as seen by the caller -/
inductive Res where
  | ok
  | idx (n : Nat)          -- returned index
  | val (v : Int)          -- returned value
  | exc (cls : String)     -- exception class
deriving Repr, DecidableEq, Inhabited

def Sub.nq (sb : Sub) : Nat := (sb.qInfo.map (fun c => c.vals.length)).sum
def Sub.nu (sb : Sub) : Nat := (sb.uInfo.map (fun c => c.vals.length)).sum
def Sub.nz (sb : Sub) : Nat := (sb.zInfo.map (fun c => c.vals.length)).sum
def St.qStart (st : St) (s : Nat) : Nat := ((st.subs.take s).map Sub.nq).sum
def St.uStart (st : St) (s : Nat) : Nat := ((st.subs.take s).map Sub.nu).sum
def St.zStart (st : St) (s : Nat) : Nat := ((st.subs.take s).map Sub.nz).sum

def writeAt (l : List Int) (off : Nat) (w : Option (Nat × Int)) : List Int :=
  match w with
  | none => l
  | some (i, v) => setAt l (off + i) v

/-- The exception an operation throws *in the release build* (only `…_ALWAYS` checks), if any.
`none` = no exception (the call may still be illegal: see `legalS`). -/
def excOf (st : St) : SOp → Option String
  | .invalCache g => if g < 3 then some "StageTooLow" else none
  | .allocQ s _ | .allocU s _ | .allocZ s _ =>
    match st.subs[s]? with
    | some sb => if sb.cur ≥ 2 then some "StageTooHigh" else none
    | none => none
  | .allocQErr s _ | .allocUErr s _ | .allocUDotErr s _ | .allocTrig s _ _ =>
    match st.subs[s]? with
    | some sb => if sb.cur ≥ 3 then some "StageTooHigh" else none
    | none => none
  | .allocDV s inv _ | .allocAutoDV s inv _ _ =>
    match st.subs[s]? with
    | some sb =>
      if inv < 1 ∨ inv > 9 then some "StageOutOfRange"
      else if sb.cur ≥ (if inv ≤ 2 then 1 else 2) then some "StageTooHigh" else none
    | none => none
  | .allocCE s dep comp _ =>
    match st.subs[s]? with
    | some sb =>
      if dep < 1 ∨ dep > 9 then some "StageOutOfRange"
      else if comp < dep ∨ comp > 10 then some "StageOutOfRange"
      else if sb.cur ≥ 3 then some "StageTooHigh" else none
    | none => none
  | .allocCEpre s dep comp _ _ _ _ ces _ =>
    match st.subs[s]? with
    | some sb =>
      if ces.any (fun ck => match st.ce? ck with | some p => p.dep > dep | none => false) then some "ErrorCheck"
      else if dep < 1 ∨ dep > 9 then some "StageOutOfRange"
      else if comp < dep ∨ comp > 10 then some "StageOutOfRange"
      else if sb.cur ≥ 3 then some "StageTooHigh" else none
    | none => none
  | .getCE s c =>
    match st.subs[s]? with
    | some sb => match sb.ces[c]? with
      | some e => if e.upToDate sb then none
                  else if sb.cur < e.dep then some "StageTooLow" else some "ErrorCheck"
      | none => none
    | none => none
  | _ => none

def allDistinct (l : List Key) : Bool :=
  match l with
  | [] => true
  | x :: xs => !xs.contains x && allDistinct xs

/-- Is the call legal (documented preconditions + the Debug-only `SimTK_STAGECHECK`/`assert`s, which are
no-ops / undefined behaviour in the release build)?  The generator only emits legal calls. -/
def legalS (st : St) : SOp → Bool
  | .advSub s g => match st.subs[s]? with
      | some sb => 1 ≤ g && g ≤ 9 && sb.cur + 1 == g
      | none => false
  | .advSys g => 1 ≤ g && g ≤ 9 && st.sys + 1 == g && st.subs.all (fun sb => sb.cur ≥ g)
  | .invalAll g => 1 ≤ g && g ≤ 9
  | .invalCache g => 1 ≤ g && g ≤ 9
  | .allocQ s vals | .allocU s vals | .allocZ s vals => s < st.subs.length && vals.length ≤ 3
  | .allocQErr s n | .allocUErr s n | .allocUDotErr s n => s < st.subs.length && 1 ≤ n
  | .allocTrig s g n => s < st.subs.length && 1 ≤ n && 1 ≤ g && g ≤ 9
  | .allocDV s inv v => match st.subs[s]? with
      | some sb => (excOf st (.allocDV s inv v)).isSome || sb.cur + 1 < inv
      | none => false
  | .allocAutoDV s inv v ud => match st.subs[s]? with
      -- the DV part throws before any side effect; otherwise the cache-entry part must not throw
      | some sb => (excOf st (.allocAutoDV s inv v ud)).isSome || (sb.cur + 1 < inv && 1 ≤ ud && ud ≤ 9)
      | none => false
  | .allocCE s _ _ _ => s < st.subs.length
  | .allocCEpre s _ _ _ _ _ dvs ces _ => match st.subs[s]? with
      | some sb =>
        -- every named prerequisite must exist, be listed once, and outlive the new entry: a prerequisite in
        -- the same subsystem always does (stacks pop from the end); one in another subsystem must have been
        -- allocated in a stage that both subsystems have completed (otherwise invalidation or copying can
        -- drop the prerequisite while the dependent survives with a dangling key: undefined behaviour)
        dvs.all (fun dk => match st.subs[dk.1]? with
          | some sj => match sj.dvs[dk.2]? with
            | some d => dk.1 == s || (d.alloc ≤ sj.cur && d.alloc ≤ sb.cur)
            | none => false
          | none => false) &&
        ces.all (fun ck => match st.subs[ck.1]? with
          | some sj => match sj.ces[ck.2]? with
            | some p => ck.1 == s || (p.alloc ≤ sj.cur && p.alloc ≤ sb.cur)
            | none => false
          | none => false) &&
        allDistinct dvs && allDistinct ces
      | none => false
  | .mark s c => match st.subs[s]? with
      | some sb => match sb.ces[c]? with
        | some e => sb.cur + 1 ≥ e.dep
        | none => false
      | none => false
  | .unmark s c | .setCE s c _ | .getCE s c => (st.ce? (s, c)).isSome
  | .markDVUpd s d => match st.subs[s]? with
      | some sb => match sb.dvs[d]? with
        | some dv => match dv.auto with
          | some cx => match sb.ces[cx]? with
            | some e => sb.cur + 1 ≥ e.dep
            | none => false
          | none => false
        | none => false
      | none => false
  | .setDV s d _ => (st.dv? (s, d)).isSome
  | .updQ w => st.sys ≥ 2 && (match w with | some (i, _) => i < st.q.length | none => true)
  | .updU w => st.sys ≥ 2 && (match w with | some (i, _) => i < st.u.length | none => true)
  | .updZ w => st.sys ≥ 2 && (match w with | some (i, _) => i < st.z.length | none => true)
  | .updQsub s w => st.sys ≥ 2 && (match st.subs[s]? with
      | some sb => (match w with | some (i, _) => i < sb.nq | none => true) | none => false)
  | .updUsub s w => st.sys ≥ 2 && (match st.subs[s]? with
      | some sb => (match w with | some (i, _) => i < sb.nu | none => true) | none => false)
  | .updZsub s w => st.sys ≥ 2 && (match st.subs[s]? with
      | some sb => (match w with | some (i, _) => i < sb.nz | none => true) | none => false)
  | .updY => st.sys ≥ 2
  | .setTime _ => st.sys ≥ 1
  | .updUW | .updZW => st.sys ≥ 2
  | .updUWsub s | .updZWsub s => st.sys ≥ 2 && s < st.subs.length
  | .updQErrW | .updUErrW => st.sys ≥ 3
  | .updQErrWsub s | .updUErrWsub s => st.sys ≥ 3 && s < st.subs.length
  | .autoUpdate => st.sys ≥ 1
  | .setTopoVer v => v ≥ 1

/-- `CacheEntryInfo::markAsUpToDate` (+ the Debug-only `recordPrerequisiteVersions`) -/
def St.markCE (st : St) (k : Key) : St :=
  match st.subs[k.1]? with
  | none => st
  | some sb =>
    st.modCE k (fun e => { e with
      stamp := sb.ver e.dep, flag := true, fresh := true,
      gQ := if e.preQ then st.qVer else e.gQ,
      gU := if e.preU then st.uVer else e.gU,
      gZ := if e.preZ then st.zVer else e.gZ,
      gDV := e.preDV.map (fun dk => match st.dv? dk with | some d => d.valVer | none => 0),
      gCE := e.preCE.map (fun ck => match st.ce? ck with | some p => p.valVer | none => 0) })

/-- `StateImpl::updDiscreteVariable` followed by the assignment of the new value -/
def St.setDV (st : St) (k : Key) (v : Int) : St :=
  match st.dv? k with
  | none => st
  | some dv0 =>
    let st1 := st.invalAll dv0.inval
    let st2 := match dv0.auto with
      | some cx => st1.notify [(k.1, cx)]
      | none => st1
    let st3 := st2.modDV k (fun d => { d with valVer := d.valVer + 1, tLast := st2.t, value := v })
    st3.notify (match st2.dv? k with | some d => d.deps | none => [])

/-- one iteration of the loop in `StateImpl::autoUpdateDiscreteVariables` -/
def St.autoUpdateOne (st : St) (k : Key) : St :=
  match st.dv? k with
  | none => st
  | some dv =>
    match dv.auto with
    | none => st
    | some cx =>
      match st.ce? (k.1, cx) with
      | none => st
      | some e =>
        if st.isRealized (k.1, cx) then
          let st1 := st.modDV k (fun d => { d with value := e.value, tLast := st.t })
          let st2 := st1.modCE (k.1, cx) (fun c => { c with value := dv.value })
          st2.notify [(k.1, cx)]
        else st

def St.allDVKeys (st : St) : List Key :=
  (mapI (fun s sb => mapI (fun d (_ : DV) => (s, d)) sb.dvs) st.subs).flatten

def St.allCEs (st : St) : List (Key × CE) :=
  (mapI (fun s sb => mapI (fun c e => ((s, c), e)) sb.ces) st.subs).flatten

def St.autoUpdate (st : St) : St :=
  st.allDVKeys.foldl (fun acc k => acc.autoUpdateOne k) st

def Sub.pushCE (sb : Sub) (e : CE) : Sub := { sb with ces := sb.ces ++ [e] }
def Sub.pushDV (sb : Sub) (d : DV) : Sub := { sb with dvs := sb.dvs ++ [d] }

/-- effect of a *legal, non-throwing* operation -/
def applyS (st : St) : SOp → St
  | .advSub s g => st.modSub s (fun sb => { sb with cur := g })
  | .advSys g => st.advSys g
  | .invalAll g | .invalCache g => st.invalAll g
  | .allocQ s vals => st.modSub s (fun sb => { sb with qInfo := sb.qInfo ++ [⟨sb.cur + 1, vals⟩] })
  | .allocU s vals => st.modSub s (fun sb => { sb with uInfo := sb.uInfo ++ [⟨sb.cur + 1, vals⟩] })
  | .allocZ s vals => st.modSub s (fun sb => { sb with zInfo := sb.zInfo ++ [⟨sb.cur + 1, vals⟩] })
  | .allocQErr s n => st.modSub s (fun sb => { sb with qerrInfo := sb.qerrInfo ++ [⟨sb.cur + 1, n⟩] })
  | .allocUErr s n => st.modSub s (fun sb => { sb with uerrInfo := sb.uerrInfo ++ [⟨sb.cur + 1, n⟩] })
  | .allocUDotErr s n => st.modSub s (fun sb => { sb with udoterrInfo := sb.udoterrInfo ++ [⟨sb.cur + 1, n⟩] })
  | .allocTrig s g n => st.modSub s (fun sb => { sb with trig := sb.trig ++ [⟨sb.cur + 1, g, n⟩] })
  | .allocDV s inv v => st.modSub s (fun sb => sb.pushDV { alloc := sb.cur + 1, inval := inv, value := v })
  | .allocAutoDV s inv v ud =>
    st.modSub s (fun sb =>
      (sb.pushDV { alloc := sb.cur + 1, inval := inv, value := v, auto := some sb.ces.length }).pushCE
        { alloc := sb.cur + 1, dep := ud, comp := 10, value := v, assoc := some sb.dvs.length })
  | .allocCE s dep comp v =>
    st.modSub s (fun sb => sb.pushCE { alloc := sb.cur + 1, dep := dep, comp := comp, value := v })
  | .allocCEpre s dep comp q u z dvs ces v =>
    match st.subs[s]? with
    | none => st
    | some sb =>
      let e : CE := { alloc := sb.cur + 1, dep := dep, comp := comp, value := v,
                      preQ := q, preU := u, preZ := z, preDV := dvs, preCE := ces }
      let e := { e with flag := !e.hasPre }
      (st.modSub s (fun sb => sb.pushCE e)).register (s, sb.ces.length) e
  | .mark s c => st.markCE (s, c)
  | .unmark s c => st.notify [(s, c)]
  | .markDVUpd s d =>
    match st.dv? (s, d) with
    | some dv => match dv.auto with
      | some cx => st.markCE (s, cx)
      | none => st
    | none => st
  | .setCE s c v => st.modCE (s, c) (fun e => { e with value := v })
  | .getCE _ _ => st
  | .setDV s d v => st.setDV (s, d) v
  | .updQ w => let st1 := (st.invalAll 5).noteQ; { st1 with q := writeAt st1.q 0 w }
  | .updU w => let st1 := (st.invalAll 6).noteU; { st1 with u := writeAt st1.u 0 w }
  | .updZ w => let st1 := (st.invalAll 7).noteZ; { st1 with z := writeAt st1.z 0 w }
  | .updQsub s w => let st1 := (st.invalAll 5).noteQ; { st1 with q := writeAt st1.q (st1.qStart s) w }
  | .updUsub s w => let st1 := (st.invalAll 6).noteU; { st1 with u := writeAt st1.u (st1.uStart s) w }
  | .updZsub s w => let st1 := (st.invalAll 7).noteZ; { st1 with z := writeAt st1.z (st1.zStart s) w }
  | .updY => (st.invalAll 5).noteY
  | .setTime v => { (st.invalAll 4) with t := some v }
  | .updUW => st.invalAll 9
  | .updZW => st.invalAll 7          -- as coded (the comment in StateImpl.h says Report)
  | .updUWsub _ => st.invalAll 9
  | .updZWsub _ => st.invalAll 9
  | .updQErrW | .updQErrWsub _ => st.invalAll 5
  | .updUErrW | .updUErrWsub _ => st.invalAll 6
  | .autoUpdate => st.autoUpdate
  | .setTopoVer v => { st with sysVers := modAt st.sysVers 1 (fun _ => v) }

/-- state after the operation (an operation that throws leaves the State unchanged: every `…_ALWAYS`
check modelled in `excOf` precedes all side effects) -/
def stepS (st : St) (op : SOp) : St :=
  match excOf st op with
  | some _ => st
  | none => applyS st op

/-- what the caller sees -/
def resS (st : St) (op : SOp) : Res :=
  match excOf st op with
  | some c => .exc c
  | none =>
    match op with
    | .allocQ s _ => .idx ((st.subs.getD s {}).nq)
    | .allocU s _ => .idx ((st.subs.getD s {}).nu)
    | .allocZ s _ => .idx ((st.subs.getD s {}).nz)
    | .allocQErr s _ => .idx (((st.subs.getD s {}).qerrInfo.map Al.n).sum)
    | .allocUErr s _ => .idx (((st.subs.getD s {}).uerrInfo.map Al.n).sum)
    | .allocUDotErr s _ => .idx (((st.subs.getD s {}).udoterrInfo.map Al.n).sum)
    | .allocTrig s g _ => .idx (((((st.subs.getD s {}).trig).filter (fun t => t.stage == g)).map Tr.n).sum)
    | .allocDV s _ _ | .allocAutoDV s _ _ _ => .idx ((st.subs.getD s {}).dvs.length)
    | .allocCE s _ _ _ | .allocCEpre s _ _ _ _ _ _ _ _ => .idx ((st.subs.getD s {}).ces.length)
    | .getCE s c => match st.ce? (s, c) with | some e => .val e.value | none => .ok
    | _ => .ok

/-! ## copying -/

/-- `CacheEntryInfo::deepAssign` (dependents are `ResetOnCopy`); ghost: a copied entry stays `fresh` only if its
depends-on stage was copied and it has no prerequisites (those are re-registered as not up to date) -/
def CE.copied (e : CE) (tg : Nat) : CE :=
  { e with deps := [], fresh := e.fresh && decide (e.dep ≤ tg) && !e.hasPre }
/-- `DiscreteVarInfo::deepAssign` -/
def DV.copied (d : DV) : DV := { d with deps := [] }

/-- `PerSubsystemInfo(const PerSubsystemInfo&)`: `initialize(); copyFrom(src, Stage::Instance)` -/
def Sub.copyOf (src : Sub) : Sub :=
  let tg := min src.cur 3
  { cur := tg,
    vers := mapI (fun i v => if i ≤ tg then v else if i ≤ src.cur ∨ Gen.copyBumpsAbove = true then v + 1 else 1) src.vers,
    qInfo := popBack CV.alloc tg src.qInfo,
    uInfo := popBack CV.alloc tg src.uInfo,
    zInfo := popBack CV.alloc tg src.zInfo,
    qerrInfo := popBack Al.alloc tg src.qerrInfo,
    uerrInfo := popBack Al.alloc tg src.uerrInfo,
    udoterrInfo := popBack Al.alloc tg src.udoterrInfo,
    trig := popBack Tr.alloc tg src.trig,
    dvs := (popBack DV.alloc tg src.dvs).map DV.copied,
    ces := (popBack CE.alloc tg src.ces).map (fun e => e.copied tg) }

/-- `registerWithPrerequisitesAfterCopy` -/
def St.registerAll (st : St) : St :=
  let st1 := st.mapCE (fun _ e => { e with flag := !e.hasPre })
  st1.allCEs.foldl (fun acc ke => acc.register ke.1 ke.2) st1

/-- `StateImpl::copyFrom(src)`; `dstVers` = the destination's system stage versions before the call
(all 1 for the copy constructor; the invalidated old ones for copy assignment). -/
def St.copyFrom (dstVers : List Nat) (src : St) : St :=
  let tg := min src.sys 3
  let sv := mapI (fun i v => if 1 ≤ i ∧ i ≤ tg then src.sysVers.getD i 0
                             else if 1 ≤ i ∧ i ≤ src.sys then src.sysVers.getD i 0 + 1 else v) dstVers
  let st : St :=
    { sys := tg, sysVers := sv, subs := src.subs.map Sub.copyOf,
      t := if src.sys ≥ 1 then src.t else none,
      q := if src.sys ≥ 2 then src.q else [],
      u := if src.sys ≥ 2 then src.u else [],
      z := if src.sys ≥ 2 then src.z else [],
      qVer := if src.sys ≥ 2 then src.qVer else src.qVer + 1,
      uVer := if src.sys ≥ 2 then src.uVer else src.uVer + 1,
      zVer := if src.sys ≥ 2 then src.zVer else src.zVer + 1 }
  st.registerAll

/-- copy constructor -/
def St.copyNew (src : St) : St := St.copyFrom (List.replicate 11 1) src
/-- copy assignment `dst = src` -/
def St.assign (dst src : St) : St := St.copyFrom (dst.invalSys 1).sysVers src

/-- A copy re-registers every copied cache entry with its prerequisites; a prerequisite that was *not*
copied (allocated while its subsystem was realizing a stage it has not finished) would be indexed out of
range (`SimTK_INDEXCHECK` is a no-op in release): such a copy is never issued. -/
def St.copySafe (src : St) : Bool :=
  let cp : St := { subs := src.subs.map Sub.copyOf }
  cp.allCEs.all (fun ke =>
    ke.2.preDV.all (fun dk => (cp.dv? dk).isSome) && ke.2.preCE.all (fun ck => (cp.ce? ck).isSome))

/-! ## several State objects -/

structure World where
  sts : List (Option St) := []
  snap : List Nat := []          -- result of the last getSystemStageVersions()
deriving Repr, DecidableEq, Inhabited

inductive Op where
  | on (k : Nat) (o : SOp)
  | copyNew (k : Nat)
  | copyAssign (src dst : Nat)
  | moveNew (k : Nat)
  | moveAssign (src dst : Nat)
  | clear (k : Nat)
  | setNumSubs (k n : Nat)
  | addSub (k : Nat)
  | snap (k : Nat)
  | diff (k : Nat)
  | probeStale (k s c : Nat)      -- query isCacheValueRealized at the end of a copy scenario (harness adds a P line)
deriving Repr, DecidableEq, Inhabited

def World.live (w : World) (k : Nat) : Option St := (w.sts[k]?).join

def Sub.pristine (sb : Sub) : Bool := sb == {}
def St.pristine (st : St) : Bool := st == { subs := st.subs } && st.subs.all Sub.pristine

/-- `State::getLowestSystemStageDifference` -/
def diffStage (sv : List Nat) (sys : Nat) (prev : List Nat) : Nat :=
  let nBefore := prev.length
  let nNow := sys + 1
  let nBoth := min nBefore nNow
  match (List.range nBoth).find? (fun g => g ≥ 1 && sv.getD g 0 != prev.getD g 0) with
  | some g => g
  | none => if nNow ≥ nBefore then 10 else max nBoth 1

def legal (w : World) : Op → Bool
  | .on k o => match w.live k with | some st => legalS st o | none => false
  | .copyNew k => match w.live k with | some st => st.copySafe && w.sts.length < 4 | none => false
  | .copyAssign s d => s != d && s < w.sts.length && d < w.sts.length &&
      (match w.live s with | some st => st.copySafe | none => true)
  | .moveNew k => (w.live k).isSome && w.sts.length < 4
  | .moveAssign s d => s != d && s < w.sts.length && d < w.sts.length
  | .clear k => k < w.sts.length
  | .setNumSubs k n => 1 ≤ n && n ≤ 8 && (match w.live k with | some st => st.pristine | none => false)
  | .addSub k => match w.live k with | some st => st.pristine && st.subs.length < 8 | none => false
  | .snap k | .diff k => (w.live k).isSome
  | .probeStale k s c => match w.live k with | some st => (st.ce? (s, c)).isSome | none => false

/-- the marking discipline under which the code's version stamps agree with the specification's freshness: a cache
entry is marked valid only once its subsystem has *reached* the depends-on stage (`markCacheValueRealized` itself
accepts the call one stage earlier: see `mark_one_stage_early_survives_change` in the proofs) -/
def strictS (st : St) : SOp → Bool
  | .mark s c => match st.subs[s]? with
      | some sb => match sb.ces[c]? with
        | some e => sb.cur ≥ e.dep
        | none => false
      | none => false
  | .markDVUpd s d => match st.subs[s]? with
      | some sb => match sb.dvs[d]? with
        | some dv => match dv.auto with
          | some cx => match sb.ces[cx]? with
            | some e => sb.cur ≥ e.dep
            | none => false
          | none => false
        | none => false
      | none => false
  | _ => true

def strict (w : World) : Op → Bool
  | .on k o => match w.live k with | some st => strictS st o | none => true
  | _ => true

def setSlot (l : List (Option St)) (k : Nat) (v : Option St) : List (Option St) := modAt l k (fun _ => v)

def step (w : World) : Op → World
  | .on k o => match w.live k with
      | some st => { w with sts := setSlot w.sts k (some (stepS st o)) }
      | none => w
  | .copyNew k => match w.live k with
      | some st => { w with sts := w.sts ++ [some st.copyNew] }
      | none => w
  | .copyAssign s d =>
      match w.live s, w.live d with
      | some src, some dst => { w with sts := setSlot w.sts d (some (dst.assign src)) }
      | some src, none => { w with sts := setSlot w.sts d (some src.copyNew) }     -- impl = src.impl->clone()
      | none, _ => { w with sts := setSlot w.sts d none }
  | .moveNew k => { w with sts := setSlot w.sts k none ++ [w.live k] }
  | .moveAssign s d =>
      let a := w.live s
      let b := w.live d
      { w with sts := setSlot (setSlot w.sts s b) d a }
  | .clear k => { w with sts := setSlot w.sts k (some {}) }
  | .setNumSubs k n => match w.live k with
      | some st => { w with sts := setSlot w.sts k (some { st with subs := List.replicate n {} }) }
      | none => w
  | .addSub k => match w.live k with
      | some st => { w with sts := setSlot w.sts k (some { st with subs := st.subs ++ [{}] }) }
      | none => w
  | .snap k => match w.live k with
      | some st => { w with snap := st.sysVers.take (st.sys + 1) }
      | none => w
  | .diff _ => w
  | .probeStale _ _ _ => w

def res (w : World) : Op → Res
  | .on k o => match w.live k with | some st => resS st o | none => .ok
  | .addSub k => match w.live k with | some st => .idx st.subs.length | none => .ok
  | .diff k => match w.live k with | some st => .idx (diffStage st.sysVers st.sys w.snap) | none => .ok
  | .probeStale k s c => match w.live k with | some st => .idx (if st.isRealized (s, c) then 1 else 0) | none => .ok
  | _ => .ok

def run (w : World) (ops : List Op) : World := ops.foldl step w

end C18
