/-!
# C33 — parallel executors, part 1: the pure index bookkeeping (kind D, exact, Mathlib-free)

Transcribed from
* `SimTKcommon/src/ParallelExecutor.cpp`   — `threadBody`: `index = info.index; while (index < count)
  { task.execute(index); index += threadCount; }`  (index *striping*) and the non-parallel branch of `execute`;
* `SimTKcommon/src/Parallel2DExecutor.cpp` — `init` (levels, bins, `binStart`), `addTriangle`, `addSquare`,
  `TriangleTask::execute`, `SquareTask::execute`, `Parallel2DExecutorImpl::execute` (pass order).

The protocol transition systems are in `SimbodyModel/C33_PE.lean` (ParallelExecutor, Parallel2DExecutor on top
of it) and `SimbodyModel/C33_WQ.lean` (ParallelWorkQueue).
-/
namespace C33

/-! ## ParallelExecutor: which worker runs which index -/

/-- the worker loop `while (index < count) { execute(index); index += T; }` with explicit fuel -/
def stripeLoop (T count : Nat) : Nat → Nat → List Nat
  | 0, _ => []
  | fuel + 1, index => if index < count then index :: stripeLoop T count fuel (index + T) else []

/-- indices executed, in order, by worker `w` of `T` workers for `execute(task, count)`
(`count` iterations always suffice because `T ≥ 1`) -/
def stripe (T count w : Nat) : List Nat := stripeLoop T count count w

/-- number of threads that call `initialize`/`finish` for one `execute(task, times)`:
`numMaxThreads < 2` runs everything on the caller; otherwise *all* `numMaxThreads` workers take part,
whatever `times` is -/
def peWorkers (numMaxThreads : Nat) : Nat := if numMaxThreads < 2 then 1 else numMaxThreads

/-- per-worker index lists of one `execute(task, times)` -/
def peAssignment (numMaxThreads times : Nat) : List (List Nat) :=
  if numMaxThreads < 2 then [List.range times]
  else (List.range numMaxThreads).map (stripe numMaxThreads times)

/-! ## Parallel2DExecutor: bins, squares, passes -/

inductive RangeType | full | half | halfPlusDiag
deriving DecidableEq, Repr

/-- `levels = 1; while (1<<levels < numProcessors) levels++;` with explicit fuel -/
def levelsLoop (np : Nat) : Nat → Nat → Nat
  | 0, l => l
  | f + 1, l => if 2 ^ l < np then levelsLoop np f (l + 1) else l

/-- the value of `levels` after the final `levels++` in `init` (only used when `numProcessors ≥ 2`) -/
def levelsFor (np : Nat) : Nat := levelsLoop np np 1 + 1

/-- a leaf square: `squares[pass-1].push_back(pair(x, y))`; it covers column bin `x`, row bin `y+1` -/
structure Sq where
  pass : Nat
  x : Nat
  y : Nat
deriving DecidableEq, Repr

/-- `addSquare(x, y, pass, level)`; the list is the chronological order of the `push_back`s -/
def addSquare (x y pass : Nat) : Nat → List Sq
  | 0 => [⟨pass, x, y⟩]
  | l + 1 =>
    addSquare (2 * x + 0) (2 * y + 1) (2 * pass + 1) l ++
    addSquare (2 * x + 1) (2 * y + 2) (2 * pass + 1) l ++
    addSquare (2 * x + 0) (2 * y + 2) (2 * pass + 2) l ++
    addSquare (2 * x + 1) (2 * y + 1) (2 * pass + 2) l

/-- `addTriangle(x, y, pass, level)`: `if (level > 1) { addSquare(2x,2y,2pass,level-1);
addTriangle(2x,2y,2pass,level-1); addTriangle(2x+1,2y+1,2pass,level-1); }` -/
def addTriangle (x y pass : Nat) : Nat → List Sq
  | 0 => []
  | 1 => []
  | l + 2 =>
    addSquare (2 * x) (2 * y) (2 * pass) (l + 1) ++
    addTriangle (2 * x) (2 * y) (2 * pass) (l + 1) ++
    addTriangle (2 * x + 1) (2 * y + 1) (2 * pass) (l + 1)

/-- contents of `squares[p]` (0-based `p`, i.e. heap-numbered pass `p+1`), in `push_back` order -/
def passSquares (all : List Sq) (p : Nat) : List (Nat × Nat) :=
  (all.filter (fun s => s.pass == p + 1)).map (fun s => (s.x, s.y))

/-- `binStart[i] = floor(0.5 + i*gridSize/(double)bins)` for `i < bins`, `binStart[bins] = gridSize`.
`bins` is a power of two, so the division and the addition of 0.5 are exact in binary64 and the value is the
integer `(2·i·gridSize + bins) / (2·bins)`. -/
def binStart (g bins i : Nat) : Nat :=
  if i = bins then g else (2 * i * g + bins) / (2 * bins)

/-- what `init(numProcessors)` leaves behind -/
structure Plan where
  /-- `binStart.size() - 1` -/
  bins : Nat
  /-- `squares` (empty array when `numProcessors < 2`) -/
  squares : List (List (Nat × Nat))
deriving Repr

def planInit (np : Nat) : Plan :=
  if np < 2 then ⟨1, []⟩
  else
    let levels := levelsFor np
    let bins := 2 ^ levels
    let all := addTriangle 0 0 0 levels
    ⟨bins, (List.range (bins - 1)).map (passSquares all)⟩

/-- `for (i = a; i < b; ++i)` -/
def span (a b : Nat) : List Nat := (List.range (b - a)).map (· + a)

/-- `TriangleTask::execute(index)` with the given `width` -/
def triPairs (bs : Nat → Nat) (rt : RangeType) (width index : Nat) : List (Nat × Nat) :=
  let start := bs (width * index)
  let stop := bs (width * (index + 1))
  match rt with
  | .full => (span start stop).flatMap fun i => (span start stop).map fun j => (i, j)
  | .half => (span start stop).flatMap fun i => (span start i).map fun j => (i, j)
  | .halfPlusDiag => (span start stop).flatMap fun i => (span start (i + 1)).map fun j => (i, j)

/-- `SquareTask::execute(index)` for the square `(x, y)` -/
def sqPairs (bs : Nat → Nat) (rt : RangeType) (sq : Nat × Nat) : List (Nat × Nat) :=
  let istart := bs (sq.2 + 1)
  let iend := bs (sq.2 + 2)
  let jstart := bs sq.1
  let jend := bs (sq.1 + 1)
  match rt with
  | .full => (span istart iend).flatMap fun i => (span jstart jend).flatMap fun j => [(i, j), (j, i)]
  | _ => (span istart iend).flatMap fun i => (span jstart jend).map fun j => (i, j)

/-- how `Parallel2DExecutorImpl::execute` uses its ParallelExecutor:  one entry per
`executor->execute(task, times)` call; entry `k` lists, per task index, the user pairs that
`task.execute(index)` runs (in order).  `none` = the `executor == 0` branch (caller runs one triangle of
width 1). -/
def p2dRounds (g : Nat) (plan : Plan) (rt : RangeType) : List (List (List (Nat × Nat))) :=
  let bs := binStart g plan.bins
  ((List.range (plan.bins / 2)).map (triPairs bs rt 2)) ::
    plan.squares.map (fun sqs => sqs.map (sqPairs bs rt))

/-- `Parallel2DExecutorImpl::execute` takes its sequential branch when `executor == 0 || binStart.size() == 2`
(no executor, or a single bin: an external executor was supplied on a one-processor machine; the second disjunct
was added by the fix of finding F10 — before it, that configuration executed nothing) -/
def runsSequential (plan : Plan) (hasExecutor : Bool) : Bool := !hasExecutor || plan.bins == 1

/-- every user invocation `task.execute(i,j)` of one `Parallel2DExecutor::execute`, in the order of a
sequential run -/
def p2dAllPairs (g : Nat) (plan : Plan) (hasExecutor : Bool) (rt : RangeType) : List (Nat × Nat) :=
  if runsSequential plan hasExecutor then triPairs (binStart g plan.bins) rt 1 0
  else ((p2dRounds g plan rt).map List.flatten).flatten

/-- `Parallel2DExecutor(gridSize, numProcessors)`: `numProcessors = min(numProcessors, gridSize/2)`,
no executor when that is `< 2` -/
def ctorOwn (g np : Nat) : Plan × Bool :=
  let np' := min np (g / 2)
  (planInit np', decide (2 ≤ np'))

/-- `Parallel2DExecutor(gridSize, ParallelExecutor&)`: partition sized from the *machine's* processor
count `ncpu = ParallelExecutor::getNumProcessors()`; the executor pointer is never null -/
def ctorExt (ncpu : Nat) : Plan × Bool := (planInit ncpu, true)

/-- membership predicate of the requested range -/
def InRange (rt : RangeType) (g i j : Nat) : Prop :=
  match rt with
  | .full => i < g ∧ j < g
  | .half => i < g ∧ j < i
  | .halfPlusDiag => i < g ∧ j ≤ i

instance (rt g i j) : Decidable (InRange rt g i j) := by
  unfold InRange; cases rt <;> exact inferInstance

end C33
