import SimbodyModel.Proto
/-!
# C45 — cable paths: length, length rate, unit forces and power of a `CableSpan` path (Mathlib-free)

Mirrors `Simbody/src/CableSpan.cpp`:
* `calcCableSegmentLength` / `calcDataPos`: length = Σ straight line-segment lengths + Σ curve-segment arc lengths;
* `CableSpan::Impl::calcDataVel`: `lengthDot = Σ dot(UnitVec3(x_GP − x_GQ), v_GP − v_GQ)` over the straight
  segments, with contact-point velocities `v_BG + w_BG % (point_G − x_BG)`;
* `calcUnitForceAtCableOrigin / ExertedByCurve / ExertedByViaPoint / AtCableTermination`, `calcCablePower`,
  `applyBodyForces` (a negative tension applies nothing).

The path solver (geodesic shooting, Newton/QP iterations, touchdown/lift-off) is NOT modelled: the path points,
tangents and arc lengths are inputs, exported from the implementation (contract).  Polymorphic in the scalar:
proved over ordered fields (with `sqrt` by its algebraic specification), executed over `Float`, and — for the
"length rate is the derivative of the length" statement — instantiated at first-order jets `Jet K`.
-/
namespace C45

structure V3 (K : Type) where
  x : K
  y : K
  z : K
deriving Repr

section Ops
variable {K : Type} [Add K] [Sub K] [Mul K] [Neg K] [Div K] [OfNat K 0] [OfNat K 1]

namespace V3
def add (a b : V3 K) : V3 K := ⟨a.x + b.x, a.y + b.y, a.z + b.z⟩
def sub (a b : V3 K) : V3 K := ⟨a.x - b.x, a.y - b.y, a.z - b.z⟩
def neg (a : V3 K) : V3 K := ⟨-a.x, -a.y, -a.z⟩
def smul (s : K) (a : V3 K) : V3 K := ⟨s * a.x, s * a.y, s * a.z⟩
def dot (a b : V3 K) : K := a.x * b.x + a.y * b.y + a.z * b.z
/-- `a % b` -/
def cross (a b : V3 K) : V3 K := ⟨a.y * b.z - a.z * b.y, a.z * b.x - a.x * b.z, a.x * b.y - a.y * b.x⟩
def zero : V3 K := ⟨0, 0, 0⟩
end V3
open V3

/-- `|v|` with the square root as a parameter -/
def norm (sqrt : K → K) (v : V3 K) : K := sqrt (dot v v)

/-- `UnitVec3(v)`: `v / |v|` -/
def unit (sqrt : K → K) (v : V3 K) : V3 K := smul (1 / norm sqrt v) v

/-- kinematics of the body a path point is fixed to: origin location, angular velocity, origin velocity (in G) -/
structure Kin (K : Type) where
  xB : V3 K
  w : V3 K
  vB : V3 K

/-- `CalcPointVelocityInGround`: `v_BG + w_BG % (point_G − x_BG)` -/
def pointVel (k : Kin K) (p : V3 K) : V3 K := add k.vB (cross k.w (sub p k.xB))

/-- what lies between origin and termination, in path order -/
inductive Elem (K : Type) where
  /-- curve segment in contact: first contact point `P` with tangent `tP`, last contact point `Q` with tangent
  `tQ`, arc length -/
  | curve (k : Kin K) (P tP Q tQ : V3 K) (arc : K)
  /-- via point with incoming and outgoing straight-line directions -/
  | via (k : Kin K) (p tin tout : V3 K)

structure EndPt (K : Type) where
  k : Kin K
  p : V3 K
  t : V3 K

structure Path (K : Type) where
  origin : EndPt K
  elems : List (Elem K)
  term : EndPt K

/-- spatial force as (moment about the body origin, force), both in G -/
structure SpatialF (K : Type) where
  m : V3 K
  f : V3 K

/-! ### length -/

/-- straight + curved length from the current straight-segment start point `q` on -/
def lengthFrom (sqrt : K → K) (q : V3 K) : List (Elem K) → EndPt K → K
  | [], T => norm sqrt (sub T.p q)
  | .curve _ P _ Q _ arc :: es, T => norm sqrt (sub P q) + arc + lengthFrom sqrt Q es T
  | .via _ p _ _ :: es, T => norm sqrt (sub p q) + lengthFrom sqrt p es T

def length (sqrt : K → K) (c : Path K) : K := lengthFrom sqrt c.origin.p c.elems c.term

/-! ### length rate (`calcDataVel`) -/

def ldotFrom (sqrt : K → K) (q vq : V3 K) : List (Elem K) → EndPt K → K
  | [], T => dot (unit sqrt (sub T.p q)) (sub (pointVel T.k T.p) vq)
  | .curve k P _ Q _ _ :: es, T =>
      dot (unit sqrt (sub P q)) (sub (pointVel k P) vq) + ldotFrom sqrt Q (pointVel k Q) es T
  | .via k p _ _ :: es, T =>
      dot (unit sqrt (sub p q)) (sub (pointVel k p) vq) + ldotFrom sqrt p (pointVel k p) es T

def lengthDot (sqrt : K → K) (c : Path K) : K :=
  ldotFrom sqrt c.origin.p (pointVel c.origin.k c.origin.p) c.elems c.term

/-! ### unit forces -/

/-- `calcUnitForceAtCableOrigin`: `(arm % t, t)` -/
def unitForceOrigin (o : EndPt K) : SpatialF K := ⟨cross (sub o.p o.k.xB) o.t, o.t⟩
/-- `calcUnitForceAtCableTermination`: `(−arm % t, −t)` -/
def unitForceTerm (T : EndPt K) : SpatialF K := ⟨neg (cross (sub T.p T.k.xB) T.t), neg T.t⟩
/-- `calcUnitForceExertedByCurve`: `(r_Q % t_Q − r_P % t_P, t_Q − t_P)`; `…ByViaPoint`: `(r % out − r % in, out − in)` -/
def unitForceElem : Elem K → SpatialF K
  | .curve k P tP Q tQ _ => ⟨sub (cross (sub Q k.xB) tQ) (cross (sub P k.xB) tP), sub tQ tP⟩
  | .via k p tin tout => ⟨sub (cross (sub p k.xB) tout) (cross (sub p k.xB) tin), sub tout tin⟩

def elemKin : Elem K → Kin K
  | .curve k _ _ _ _ _ => k
  | .via k _ _ _ => k

/-- `~unitForce_G * bodyVelocity`: moment·ω + force·v_origin -/
def spatialPower (F : SpatialF K) (k : Kin K) : K := dot F.m k.w + dot F.f k.vB

def powerFrom : List (Elem K) → EndPt K → K
  | [], T => spatialPower (unitForceTerm T) T.k
  | e :: es, T => spatialPower (unitForceElem e) (elemKin e) + powerFrom es T

/-- the `unitPower` accumulated by `calcCablePower` -/
def unitPower (c : Path K) : K := spatialPower (unitForceOrigin c.origin) c.origin.k + powerFrom c.elems c.term

/-- `calcCablePower(state, tension)` -/
def cablePower [LT K] [DecidableLT K] (c : Path K) (tension : K) : K :=
  if tension < 0 then 0 else unitPower c * tension

/-- all unit forces in application order: origin, elements, termination -/
def unitForces (c : Path K) : List (SpatialF K) :=
  unitForceOrigin c.origin :: (c.elems.map unitForceElem ++ [unitForceTerm c.term])

/-- moment of a body spatial force about the ground origin: `m + x_B % f` -/
def groundMoment (F : SpatialF K) (k : Kin K) : V3 K := add F.m (cross k.xB F.f)

def forceFrom : List (Elem K) → EndPt K → V3 K
  | [], T => (unitForceTerm T).f
  | e :: es, T => add (unitForceElem e).f (forceFrom es T)

def momentFrom : List (Elem K) → EndPt K → V3 K
  | [], T => groundMoment (unitForceTerm T) T.k
  | e :: es, T => add (groundMoment (unitForceElem e) (elemKin e)) (momentFrom es T)

/-- resultant of everything `applyBodyForces` applies, per unit tension -/
def totalForce (c : Path K) : V3 K := add (unitForceOrigin c.origin).f (forceFrom c.elems c.term)
/-- resultant moment about the ground origin, per unit tension -/
def totalMoment (c : Path K) : V3 K :=
  add (groundMoment (unitForceOrigin c.origin) c.origin.k) (momentFrom c.elems c.term)

/-! ### smoothness of a converged path: every tangent is the direction of the adjacent straight segment -/

def smoothFrom (sqrt : K → K) (q tq : V3 K) : List (Elem K) → EndPt K → Prop
  | [], T => tq = unit sqrt (sub T.p q) ∧ T.t = tq
  | .curve _ P tP Q tQ _ :: es, T => tq = unit sqrt (sub P q) ∧ tP = tq ∧ smoothFrom sqrt Q tQ es T
  | .via _ p tin tout :: es, T => tq = unit sqrt (sub p q) ∧ tin = tq ∧ smoothFrom sqrt p tout es T

def smooth (sqrt : K → K) (c : Path K) : Prop := smoothFrom sqrt c.origin.p c.origin.t c.elems c.term

/-- chord of every curve segment no longer than its arc (a geodesic is at least as long as the straight line) -/
def arcsGeChords [LE K] (sqrt : K → K) : List (Elem K) → Prop
  | [] => True
  | .curve _ P _ Q _ arc :: es => norm sqrt (sub Q P) ≤ arc ∧ arcsGeChords sqrt es
  | .via _ _ _ _ :: es => arcsGeChords sqrt es

end Ops

/-! ## First-order jets `K[ε]/(ε²)` -/

structure Jet (K : Type) where
  v : K
  d : K
deriving Repr

section JetOps
variable {K : Type} [Add K] [Sub K] [Mul K] [Neg K] [Div K] [OfNat K 0] [OfNat K 1] [OfNat K 2]

instance : Add (Jet K) := ⟨fun a b => ⟨a.v + b.v, a.d + b.d⟩⟩
instance : Sub (Jet K) := ⟨fun a b => ⟨a.v - b.v, a.d - b.d⟩⟩
instance : Neg (Jet K) := ⟨fun a => ⟨-a.v, -a.d⟩⟩
instance : Mul (Jet K) := ⟨fun a b => ⟨a.v * b.v, a.v * b.d + a.d * b.v⟩⟩
/-- `(a/b)' = (a' b − a b')/b²` -/
instance : Div (Jet K) := ⟨fun a b => ⟨a.v / b.v, (a.d * b.v - a.v * b.d) / (b.v * b.v)⟩⟩
instance : OfNat (Jet K) 0 := ⟨⟨0, 0⟩⟩
instance : OfNat (Jet K) 1 := ⟨⟨1, 0⟩⟩

/-- lift of `√`: `(√a)' = a'/(2√a)` -/
def sqrtJ (sqrt : K → K) (a : Jet K) : Jet K := ⟨sqrt a.v, a.d / (2 * sqrt a.v)⟩

/-- a point moving with velocity `v`: `p + ε v` -/
def liftPt (p v : V3 K) : V3 (Jet K) := ⟨⟨p.x, v.x⟩, ⟨p.y, v.y⟩, ⟨p.z, v.z⟩⟩
end JetOps

end C45
