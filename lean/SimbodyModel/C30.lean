import SimbodyModel.Proto
/-!
# C30 — polynomial roots: model of `PolynomialRootFinder::findRoots` (quadratic overloads)

Mirrors SimTKcommon/Polynomial/src/PolynomialRootFinder.cpp branch by branch.  Polymorphic in the
scalar `K`: proved over any linear ordered field (SimbodyProofs/C30.lean), executed over `Float`
(Drivers/C30.lean).  `sqrt` is a parameter (libm is trusted-base item 7); the theorems assume only
`0 ≤ x → sqrt x * sqrt x = x ∧ 0 ≤ sqrt x`.

The `b = 0` branch is modelled as the *documented* quadratic formula `√disc / (2a)`; the pinned
source had `std::sqrt(discriminant)/(T)2.0*a` (operator precedence), finding F1, fixed in /repo.
-/
namespace C30

/-- complex number over `K` as a pair (Mathlib-free) -/
structure Cx (K : Type) where
  re : K
  im : K
deriving Repr

variable {K : Type} [Add K] [Sub K] [Mul K] [Neg K] [Div K]

namespace Cx
def add (x y : Cx K) : Cx K := ⟨x.re + y.re, x.im + y.im⟩
def sub (x y : Cx K) : Cx K := ⟨x.re - y.re, x.im - y.im⟩
def neg (x : Cx K) : Cx K := ⟨-x.re, -x.im⟩
def mul (x y : Cx K) : Cx K := ⟨x.re * y.re - x.im * y.im, x.re * y.im + x.im * y.re⟩
def smul (s : K) (x : Cx K) : Cx K := ⟨s * x.re, s * x.im⟩
def conj (x : Cx K) : Cx K := ⟨x.re, -x.im⟩
def normSq (x : Cx K) : K := x.re * x.re + x.im * x.im
/-- `x / y` by the textbook formula `x·conj y / |y|²` -/
def div (x y : Cx K) : Cx K :=
  let d := normSq y
  ⟨(x.re * y.re + x.im * y.im) / d, (x.im * y.re - x.re * y.im) / d⟩
def divReal (x : Cx K) (a : K) : Cx K := ⟨x.re / a, x.im / a⟩
end Cx

variable [OfNat K 0] [OfNat K 2] [OfNat K 4] [LT K] [DecidableLT K]

def ofReal (x : K) : Cx K := ⟨x, 0⟩

/-- value of `a z² + b z + c` at complex `z`, real coefficients -/
def evalReal (a b c : K) (z : Cx K) : Cx K :=
  Cx.add (Cx.add (Cx.smul a (Cx.mul z z)) (Cx.smul b z)) (ofReal c)

/-- value of `a z² + b z + c` at complex `z`, complex coefficients -/
def evalCx (a b c z : Cx K) : Cx K :=
  Cx.add (Cx.add (Cx.mul a (Cx.mul z z)) (Cx.mul b z)) c

/-- which branch of the real-coefficient routine is taken -/
inductive Branch | doubleRoot | bZeroReal | bZeroImag | general
deriving Repr, DecidableEq

def discriminant (a b c : K) : K := b * b - 4 * a * c

def branchOf (eps a b c : K) : Branch :=
  let disc := discriminant a b c
  let tol := 2 * eps * (b * b)
  if disc < tol ∧ -tol < disc then .doubleRoot
  else if b < 0 ∨ 0 < b then .general
  else if disc < 0 then .bZeroImag else .bZeroReal

/-- `std::sqrt(complex<T>(d))` for real `d` (imaginary part +0) -/
def sqrtOfReal (sqrt : K → K) (d : K) : Cx K :=
  if d < 0 then ⟨0, sqrt (-d)⟩ else ⟨sqrt d, 0⟩

/-- `findRoots(Vec<3,T>, Vec<2,complex<T>>)`; `eps` is `NTraits<T>::getEps()` -/
def quadReal (sqrt : K → K) (eps a b c : K) : Cx K × Cx K :=
  let disc := discriminant a b c
  match branchOf eps a b c with
  | .doubleRoot => let r := -b / (2 * a); (ofReal r, ofReal r)
  | .bZeroReal  => let r := sqrt disc / (2 * a); (ofReal r, ofReal (-r))
  | .bZeroImag  => let r := sqrt (-disc) / (2 * a); (⟨0, r⟩, ⟨0, -r⟩)
  | .general =>
    let s := sqrtOfReal sqrt disc
    let bs : Cx K := if 0 < b then Cx.add (ofReal b) s else Cx.sub (ofReal b) s
    -- q = -0.5 * (b ± sqrt(disc))
    let q : Cx K := ⟨-(bs.re / 2), -(bs.im / 2)⟩
    (Cx.divReal q a, Cx.div (ofReal c) q)

/-- `findRoots(Vec<3,complex<T>>, Vec<2,complex<T>>)`: complex coefficients.  `csqrt` is
`std::sqrt(complex<T>)`; `bIsZero` is the test `b == 0`. -/
def quadCx (csqrt : Cx K → Cx K) (bIsZero : Bool) (a b c : Cx K) : Cx K × Cx K :=
  let disc := Cx.sub (Cx.mul b b) (Cx.smul 4 (Cx.mul a c))
  let s := csqrt disc
  if bIsZero then
    let r := Cx.div s (Cx.smul 2 a)
    (r, Cx.neg r)
  else
    let temp := (Cx.mul (Cx.conj b) s).re
    let bs := if 0 < temp then Cx.add b s else Cx.sub b s
    let q : Cx K := ⟨-(bs.re / 2), -(bs.im / 2)⟩
    (Cx.div q a, Cx.div c q)


/-! ## Kind-K contract for degree ≥ 3 (rpoly / cpoly are vendored and not modelled)

The acceptance predicate is evaluated in exact rational arithmetic on the doubles the implementation
returned: every returned root `z` must satisfy `|p(z)| ≤ tol · Σ |aᵢ| |z|ⁿ⁻ⁱ` (the backward-error form of
"vanishes within a tolerance proportional to the coefficient scale and the root's conditioning"). -/

/-- Horner evaluation, coefficients highest degree first -/
def hornerCx (coeffs : List (Cx K)) (z : Cx K) : Cx K :=
  coeffs.foldl (fun acc a => Cx.add (Cx.mul acc z) a) ⟨0, 0⟩

def absUpper (z : Cx Rat) : Rat := Proto.sqrtUpper (Cx.normSq z)

/-- upper bound of `Σ |aᵢ| |z|ⁿ⁻ⁱ` -/
def scaleAt (coeffs : List (Cx Rat)) (z : Cx Rat) : Rat :=
  coeffs.foldl (fun acc a => acc * absUpper z + absUpper a) 0

/-- coefficients of the derivative (highest degree first) -/
def derivCoeffs (coeffs : List (Cx Rat)) : List (Cx Rat) :=
  let n := coeffs.length - 1
  (coeffs.take n).zipIdx.map (fun (a, i) => Cx.smul (((n - i : Nat) : Int) : Rat) a)

/-- upper bound of `|z|·|p'(z)|`; `S/(|z||p'(z)|)` is the relative condition number of the root `z` -/
def condDen (coeffs : List (Cx Rat)) (z : Cx Rat) : Rat :=
  absUpper z * Proto.sqrtUpper (Cx.normSq (hornerCx (derivCoeffs coeffs) z))

/-- acceptance of one returned root: `|p(z)| ≤ tol·S(z)·(1 + min(κ(z), 10⁶))` with `κ = S/(|z||p'(z)|)` (the cap keeps the
bound meaningful even at a multiple root or at `z = 0`), written without division as
`|p(z)|·D ≤ tol·S·(D + min(S, 10⁶·D))` and squared (all quantities non-negative) -/
def rootAccept (tol : Rat) (coeffs : List (Cx Rat)) (z : Cx Rat) : Bool :=
  let S := scaleAt coeffs z
  let D := condDen coeffs z
  let K := if S ≤ 1000000 * D then S else 1000000 * D
  if D ≤ 0 then
    -- |z||p'(z)| = 0: conditioning term at its cap
    Cx.normSq (hornerCx coeffs z) ≤ (tol * S * 1000001) * (tol * S * 1000001)
  else
    Cx.normSq (hornerCx coeffs z) * (D * D) ≤ (tol * S * (D + K)) * (tol * S * (D + K))

def polyAccept (tol : Rat) (coeffs roots : List (Cx Rat)) : Bool :=
  (roots.length + 1 == coeffs.length) && roots.all (rootAccept tol coeffs)

end C30
