import SimbodyModel.Proto
/-!
# C40 — numerical differentiation: model of `SimTKmath/src/Differentiator.cpp`

`DifferentiatorRep::calcDerivative / calcGradient / calcJacobian`: step selection
`hEst = AccFac(order) * max(|y0|, YMin)`, `h = cleanUpH(hEst, y0) = (y0+hEst)-y0`, forward quotient
`(f(y0+h) - f(y0))/h`, central quotient `(f(y0+h) - f(y0-h))/(2h)`; gradients and Jacobians apply the same
scalar rule to the restriction of the user function to one coordinate (`ytmp[i] = y0[i] ± h`, all other
coordinates at `y0`).  `AccFac1 = sqrt(acc)`, `AccFac2 = pow(acc, 1/3)` enter as the parameter `accFac`
(libm is trusted).  Polymorphic in the scalar `K`: proved over ordered fields, executed over `Float`.
-/
namespace C40

variable {K : Type} [Add K] [Sub K] [Mul K] [Neg K] [Div K]
variable [OfNat K 0] [OfNat K 1] [OfNat K 2] [OfNat K 10] [LT K] [DecidableLT K]

/-- `YMin = Real(0.1)` -/
def yMin : K := 1 / 10
/-- `std::abs` -/
def absK (x : K) : K := if x < 0 then -x else x
/-- `std::max(a,b)` = `(a<b) ? b : a` -/
def maxK (a b : K) : K := if a < b then b else a

/-- `hEst = getAccFac(order)*std::max(std::abs(y0), YMin)` -/
def hEst (accFac y0 : K) : K := accFac * maxK (absK y0) yMin
/-- `cleanUpH`: `temp = y0+hEst; return temp-y0` -/
def cleanUpH (hEst y0 : K) : K := (y0 + hEst) - y0
def stepH (accFac y0 : K) : K := cleanUpH (hEst accFac y0) y0

/-- `(fyplus-fy0)/h` -/
def forwardQ (fplus f0 h : K) : K := (fplus - f0) / h
/-- `(fyplus-fyminus)/(2*h)` -/
def centralQ (fplus fminus h : K) : K := (fplus - fminus) / (2 * h)

/-- `calcDerivative`, `order==1` (the caller supplies `fy0 = f(y0)`) -/
def forwardDiff (f : K → K) (accFac y0 fy0 : K) : K :=
  let h := stepH accFac y0
  forwardQ (f (y0 + h)) fy0 h

/-- `calcDerivative`, `order==2` -/
def centralDiff (f : K → K) (accFac y0 : K) : K :=
  let h := stepH accFac y0
  centralQ (f (y0 + h)) (f (y0 - h)) h

/-- `ytmp = y0; ytmp[i] = v` -/
def setAt (y : List K) (i : Nat) (v : K) : List K := y.set i v

/-- restriction of a function of a vector to coordinate `i` through the point `y` -/
def restrict {β : Type} (f : List K → β) (y : List K) (i : Nat) : K → β := fun t => f (setAt y i t)

/-- `calcGradient`: entry `i`; `order = 1` forward (uses `fy0`), otherwise central -/
def gradEntry (order : Nat) (f : List K → K) (accFac : K) (y : List K) (fy0 : K) (i : Nat) : K :=
  if order = 1 then forwardDiff (restrict f y i) accFac (y.getD i 0) fy0
  else centralDiff (restrict f y i) accFac (y.getD i 0)

def gradient (order : Nat) (f : List K → K) (accFac : K) (y : List K) (fy0 : K) : List K :=
  (List.range y.length).map (gradEntry order f accFac y fy0)

/-- `calcJacobian`: entry (k,i) = row `k` of column `i` (`dfdy(i) = (fyptmp-fy0)/h` componentwise) -/
def jacEntry (order : Nat) (f : List K → List K) (accFac : K) (y fy0 : List K) (k i : Nat) : K :=
  gradEntry order (fun v => (f v).getD k 0) accFac y (fy0.getD k 0) i

/-- `getMethodOrder` after defaulting: Unspecified(0) → the default method; Forward(1) → 1; Central(2) → 2 -/
def methodOrder (m dflt : Nat) : Nat :=
  let m' := if m = 0 then (if dflt = 0 then 1 else dflt) else m
  if m' = 2 then 2 else 1

/-- which entry points are documented to work for a function with `nf` outputs and `n` parameters
(`route` 0 = calcDerivative: 1x1 only; 1 = calcGradient: `nf = 1`; 2 = calcJacobian: always);
anything else throws `OpNotAllowedForFunctionOfThisShape` -/
def routeAllowed (route nf n : Nat) : Bool :=
  if route = 0 then nf == 1 && n == 1 else if route = 1 then nf == 1 else true

end C40
