import SimbodyModel.TreeDyn
/-!
# C01 — what the correspondence compares (all defined by the shared tree model `TreeDyn`)

`multiplyByM`, `multiplyByMInv`, `calcM`, `calcMInv`, `calcKineticEnergy`, `getArticulatedBodyInertia`,
and the per-case validation of the well-formedness hypothesis `WF` of the theorems (`D * DI = 1` at every body).
-/
namespace C01
open TreeDyn
variable {K : Type} [Add K] [Sub K] [Mul K] [Neg K] [Div K] [OfNat K 0] [OfNat K 1] [OfNat K 2]

/-- entries of `D * DI - 1` for every body (the model's own `DI`); all must vanish for `WF` -/
def wfResiduals (abi : List (Tr (Body K × Abi K))) : List K :=
  (Tr.flattenL abi).foldr (fun (x : Body K × Abi K) (acc : List K) =>
    let n := x.1.d
    let prod := lmul x.2.D x.2.DI n
    let res : List (List K) := List.zipWith lsub prod (lident n)
    res.foldr (· ++ ·) acc) []

/-- articulated body inertias in body-index order, each as `M(6) J(6) F(9)` -/
def abiList (abi : List (Tr (Body K × Abi K))) (bodies : List (Body K)) : List K :=
  let flat := Tr.flattenL abi
  bodies.foldr (fun (b : Body K) (acc : List K) =>
    match flat.find? (fun (x : Body K × Abi K) => x.1.idx == b.idx) with
    | some x => x.2.P.toList ++ acc
    | none => acc) []

end C01
