/-!
# C04 — Jacobian operators of a multibody tree (executable model, Mathlib-free)

Mirrors, formula by formula,

* `RigidBodyNodeSpec<dof,…>::multiplyBySystemJacobian`            (outward:  `V = ~Phi * V_parent + H * u`)
* `RigidBodyNodeSpec<dof,…>::multiplyBySystemJacobianTranspose`   (inward:   `z = X + Σ Phi_child * z_child`, `out = ~H * z`)
* `RigidBodyNodeSpec<dof,…>::calcBodyAccelerationsFromUdotOutward` (`A = ~Phi * A_parent + H * udot + a`)
* the total Coriolis recursion of `RigidBodyNode::calcJointIndependentKinematicsVel` (`a_tot = ~Phi * a_tot,parent + a`)
* the Weld / Ground specialisations (no `H`: the column list is empty; Ground: result 0, `z` accumulated only)
* the task loops of `SimbodyMatterSubsystem::{multiplyBy,calc,calcBiasFor}{Station,Frame}Jacobian[Transpose]`
  (`shiftVelocityBy`, `shiftAccelerationBy`, `F_G[b] += (r × f, f)`, explicit matrices built row-by-row through `~J`)
* `SimbodyMatterSubsystem::calcSystemJacobian` (column `j` = operator applied to the unit vector `e_j`).

A body carries its mobilized-body index `id`, the index `u0` of its first generalized speed, the hinge matrix
`H` as the *list of its columns* (so the joint dimension is `H.length`, any number, 0 for a Weld), the vector
`l = p_PB_G` of the `PhiMatrix`, and its orientation `R_GB` (rows), used only to re-express task stations.
Generalized speeds are a flat list; a body reads its slice at `u0`.  Spatial vectors are `(angular, linear)`
pairs exactly like `SpatialVec`.  Everything is polymorphic in the scalar `K`; the theorems in
`SimbodyProofs/C04.lean` are about *these* definitions over an arbitrary commutative ring, the driver runs
them over `Float`.
-/
namespace C04

structure V3 (K : Type) where
  x : K
  y : K
  z : K
deriving Repr

/-- `SpatialVec`: element 0 angular, element 1 linear -/
structure SV (K : Type) where
  w : V3 K
  v : V3 K
deriving Repr

variable {K : Type} [Add K] [Sub K] [Mul K] [Neg K] [OfNat K 0] [OfNat K 1]

namespace V3
def zero : V3 K := ⟨0, 0, 0⟩
def add (a b : V3 K) : V3 K := ⟨a.x + b.x, a.y + b.y, a.z + b.z⟩
def sub (a b : V3 K) : V3 K := ⟨a.x - b.x, a.y - b.y, a.z - b.z⟩
def smul (s : K) (a : V3 K) : V3 K := ⟨a.x * s, a.y * s, a.z * s⟩
def dot (a b : V3 K) : K := a.x * b.x + a.y * b.y + a.z * b.z
/-- `a % b` -/
def cross (a b : V3 K) : V3 K :=
  ⟨a.y * b.z - a.z * b.y, a.z * b.x - a.x * b.z, a.x * b.y - a.y * b.x⟩
/-- `i`-th coordinate unit vector (`i ≥ 3` gives 0) -/
def unit (i : Nat) : V3 K :=
  ⟨if i = 0 then 1 else 0, if i = 1 then 1 else 0, if i = 2 then 1 else 0⟩
def get (a : V3 K) (i : Nat) : K := if i = 0 then a.x else if i = 1 then a.y else a.z
def toList (a : V3 K) : List K := [a.x, a.y, a.z]
end V3

namespace SV
def zero : SV K := ⟨V3.zero, V3.zero⟩
def add (a b : SV K) : SV K := ⟨V3.add a.w b.w, V3.add a.v b.v⟩
def sub (a b : SV K) : SV K := ⟨V3.sub a.w b.w, V3.sub a.v b.v⟩
def smul (s : K) (a : SV K) : SV K := ⟨V3.smul s a.w, V3.smul s a.v⟩
/-- `~a * b` -/
def dot (a b : SV K) : K := V3.dot a.w b.w + V3.dot a.v b.v
def toList (a : SV K) : List K := [a.w.x, a.w.y, a.w.z, a.v.x, a.v.y, a.v.z]
/-- the six coordinate unit spatial vectors (0..2 angular, 3..5 linear) -/
def unit (i : Nat) : SV K := if i < 3 then ⟨V3.unit i, V3.zero⟩ else ⟨V3.zero, V3.unit (i - 3)⟩
end SV

/-- `~PhiMatrix(l) * V = (ω, v + ω × l)`; this is also `shiftVelocityBy(V, l)` -/
def phiT (l : V3 K) (V : SV K) : SV K := ⟨V.w, V3.add V.v (V3.cross V.w l)⟩

/-- `PhiMatrix(l) * F = (τ + l × f, f)`; this is also the shift of a force applied at `l` to the origin -/
def phi (l : V3 K) (F : SV K) : SV K := ⟨V3.add F.w (V3.cross l F.v), F.v⟩

/-- `shiftAccelerationBy(A, ω, r) = (b, a + b × r + ω × (ω × r))` -/
def shiftAcc (A : SV K) (w r : V3 K) : SV K :=
  ⟨A.w, V3.add (V3.add A.v (V3.cross A.w r)) (V3.cross w (V3.cross w r))⟩

/-- `H * u`, `H` given by columns; sums over the common prefix of columns and speeds -/
def mulH : List (SV K) → List K → SV K
  | h :: H, x :: u => SV.add (SV.smul x h) (mulH H u)
  | _, _ => SV.zero

/-- `~H * z`: one entry per column -/
def mulHt (H : List (SV K)) (z : SV K) : List K := H.map (fun h => SV.dot h z)

/-- dot product of two lists over their common prefix -/
def dotL : List K → List K → K
  | a :: as, b :: bs => a * b + dotL as bs
  | _, _ => 0

/-- one mobilized body (not Ground) -/
structure Bd (K : Type) where
  id : Nat                 -- MobilizedBodyIndex
  u0 : Nat                 -- first u index
  l  : V3 K                -- p_PB_G of the PhiMatrix
  H  : List (SV K)         -- hinge matrix columns (in Ground)
  R  : List (V3 K)         -- rows of R_GB (only used to re-express task stations)

/-- rose tree of mobilized bodies -/
inductive Tr (K : Type) where
  | node (b : Bd K) (cs : List (Tr K)) : Tr K

def Tr.bd : Tr K → Bd K | .node b _ => b
def Tr.kids : Tr K → List (Tr K) | .node _ cs => cs

/-- result of an outward pass: one spatial vector per body, tagged with the body index -/
abbrev BodyVals (K : Type) := List (Nat × SV K)
/-- result of an inward pass: per body the first u index and the `dof` numbers `~H z` -/
abbrev MobVals (K : Type) := List (Nat × List K)

/-! ## system Jacobian: outward pass -/
mutual
/-- `multiplyBySystemJacobian` for the subtree `t` whose parent already has result `Vp` -/
def mulJ (u : List K) : Tr K → SV K → BodyVals K
  | .node b cs, Vp =>
    let V := SV.add (phiT b.l Vp) (mulH b.H (u.drop b.u0))
    (b.id, V) :: mulJs u cs V
/-- the same for a list of sibling subtrees with common parent result `V` -/
def mulJs (u : List K) : List (Tr K) → SV K → BodyVals K
  | [], _ => []
  | c :: cs, V => mulJ u c V ++ mulJs u cs V
end

/-! ## system Jacobian transpose: inward pass -/
mutual
/-- `multiplyBySystemJacobianTranspose` on a subtree: returns `z` of its root and the `~H z` of all its bodies -/
def mulJT (F : Nat → SV K) : Tr K → SV K × MobVals K
  | .node b cs =>
    let r := mulJTs F cs
    let z := SV.add (F b.id) r.1
    (z, (b.u0, mulHt b.H z) :: r.2)
/-- siblings: returns `Σ Phi_child * z_child` and the concatenated outputs -/
def mulJTs (F : Nat → SV K) : List (Tr K) → SV K × MobVals K
  | [] => (SV.zero, [])
  | c :: cs =>
    let rc := mulJT F c
    let rs := mulJTs F cs
    (SV.add (phi c.bd.l rc.1) rs.1, rc.2 ++ rs.2)
end

/-! ## accelerations from udot (and, with `udot = []`, the total Coriolis acceleration) -/
mutual
/-- `calcBodyAccelerationsFromUdotOutward`; `a id` is the mobilizer's incremental Coriolis acceleration
(`~PhiDot * V_parent + HDot * u`) -/
def acc (a : Nat → SV K) (ud : List K) : Tr K → SV K → BodyVals K
  | .node b cs, Ap =>
    let A := SV.add (SV.add (phiT b.l Ap) (mulH b.H (ud.drop b.u0))) (a b.id)
    (b.id, A) :: accs a ud cs A
def accs (a : Nat → SV K) (ud : List K) : List (Tr K) → SV K → BodyVals K
  | [], _ => []
  | c :: cs, A => acc a ud c A ++ accs a ud cs A
end

/-! the velocity recursion of `calcJointIndependentKinematicsVel`: `V_GB = ~Phi * V_GP + V_PB_G` with the
cross-joint velocity `V_PB_G` supplied per body -/
mutual
def bodyVel (vpb : Nat → SV K) : Tr K → SV K → BodyVals K
  | .node b cs, Vp =>
    let V := SV.add (phiT b.l Vp) (vpb b.id)
    (b.id, V) :: bodyVels vpb cs V
def bodyVels (vpb : Nat → SV K) : List (Tr K) → SV K → BodyVals K
  | [], _ => []
  | c :: cs, V => bodyVel vpb c V ++ bodyVels vpb cs V
end

/-! ## pairings -/
/-- `Σ_bodies ~F[id] * V` along a body-tagged list -/
def pairV (F : Nat → SV K) : BodyVals K → K
  | [] => 0
  | (i, V) :: r => SV.dot (F i) V + pairV F r
/-- `Σ_bodies ~out * u[slice]` along the mobility outputs -/
def pairU (u : List K) : MobVals K → K
  | [] => 0
  | (u0, o) :: r => dotL o (u.drop u0) + pairU u r

/-! ## the whole system: a forest of base bodies hanging off Ground (Ground: `V = 0`, no mobilities) -/
def sysJ (ts : List (Tr K)) (u : List K) : BodyVals K := mulJs u ts SV.zero
def sysJT (ts : List (Tr K)) (F : Nat → SV K) : MobVals K := (mulJTs F ts).2
def sysAcc (ts : List (Tr K)) (a : Nat → SV K) (ud : List K) : BodyVals K := accs a ud ts SV.zero
/-- `calcBiasForSystemJacobian` = total Coriolis acceleration = accelerations for `udot = 0` -/
def sysBias (ts : List (Tr K)) (a : Nat → SV K) : BodyVals K := accs a [] ts SV.zero

/-! ## flat vectors -/
/-- add the entries `xs` into `acc` starting at offset `k` (entries falling off the end are dropped) -/
def addAt : Nat → List K → List K → List K
  | _, _, [] => []
  | 0, [], acc => acc
  | 0, x :: xs, a :: acc => (a + x) :: addAt 0 xs acc
  | k + 1, xs, a :: acc => a :: addAt k xs acc

/-- flat generalized-force vector of length `n` from the per-body outputs -/
def scatter (n : Nat) : MobVals K → List K
  | [] => List.replicate n 0
  | (u0, o) :: r => addAt u0 o (scatter n r)

/-- unit vector `e_j` of length `n` -/
def unitL : Nat → Nat → List K
  | 0, _ => []
  | n + 1, 0 => 1 :: List.replicate n 0
  | n + 1, j + 1 => 0 :: unitL n j

/-- value of body `i` in a body-tagged list (Ground and unknown bodies: 0) -/
def lookup (i : Nat) : BodyVals K → SV K
  | [] => SV.zero
  | (j, V) :: r => if i = j then V else lookup i r

/-- flat `~J * F` -/
def sysJTflat (ts : List (Tr K)) (n : Nat) (F : Nat → SV K) : List K := scatter n (sysJT ts F)

/-- `calcSystemJacobian`: column `j` is `J * e_j` (`n` columns) -/
def calcSysJ (ts : List (Tr K)) (n : Nat) : List (BodyVals K) :=
  (List.range n).map (fun j => sysJ ts (unitL n j))

/-! ## station and frame tasks -/
/-- a task: body index and the station already re-expressed in Ground (`p_BS_G = R_GB * p_BS`) -/
structure Task (K : Type) where
  body : Nat
  r : V3 K

/-- `R * p` with `R` given by rows (`expressVectorInGroundFrame`) -/
def rotate (R : List (V3 K)) (p : V3 K) : V3 K :=
  match R with
  | [r0, r1, r2] => ⟨V3.dot r0 p, V3.dot r1 p, V3.dot r2 p⟩
  | _ => p

/-- `multiplyByFrameJacobian`: `J*u` once, then `shiftVelocityBy` per task -/
def mulFrameJ (ts : List (Tr K)) (tasks : List (Task K)) (u : List K) : List (SV K) :=
  let Ju := sysJ ts u
  tasks.map (fun t => phiT t.r (lookup t.body Ju))

/-- `multiplyByStationJacobian`: linear part only -/
def mulStationJ (ts : List (Tr K)) (tasks : List (Task K)) (u : List K) : List (V3 K) :=
  (mulFrameJ ts tasks u).map (·.v)

/-- `F_G[b] += (τ + r × f, f)` over all tasks: the body force array built by the transpose operators -/
def taskForces : List (Task K) → List (SV K) → Nat → SV K
  | t :: tasks, F :: Fs => fun i =>
      if i = t.body then SV.add (phi t.r F) (taskForces tasks Fs i) else taskForces tasks Fs i
  | _, _ => fun _ => SV.zero

/-- `multiplyByFrameJacobianTranspose` -/
def mulFrameJT (ts : List (Tr K)) (n : Nat) (tasks : List (Task K)) (Fs : List (SV K)) : List K :=
  sysJTflat ts n (taskForces tasks Fs)

/-- `multiplyByStationJacobianTranspose` -/
def mulStationJT (ts : List (Tr K)) (n : Nat) (tasks : List (Task K)) (fs : List (V3 K)) : List K :=
  mulFrameJT ts n tasks (fs.map (fun f => ⟨V3.zero, f⟩))

/-- body force array with the single spatial force `F` on body `b` -/
def single (b : Nat) (F : SV K) : Nat → SV K := fun i => if i = b then F else SV.zero

/-- `calcFrameJacobian`: for each task six rows, each `~J` applied to a unit force shifted to the body origin -/
def calcFrameJ (ts : List (Tr K)) (n : Nat) (tasks : List (Task K)) : List (List (List K)) :=
  tasks.map (fun t => (List.range 6).map (fun i => sysJTflat ts n (single t.body (phi t.r (SV.unit i)))))

/-- `calcStationJacobian`: the three translational rows -/
def calcStationJ (ts : List (Tr K)) (n : Nat) (tasks : List (Task K)) : List (List (List K)) :=
  tasks.map (fun t => (List.range 3).map (fun i => sysJTflat ts n (single t.body (phi t.r (SV.unit (i + 3))))))

/-- `calcBiasForFrameJacobian`: total Coriolis acceleration shifted to the task point -/
def biasFrameJ (ts : List (Tr K)) (a : Nat → SV K) (w : Nat → V3 K) (tasks : List (Task K)) : List (SV K) :=
  let A := sysBias ts a
  tasks.map (fun t => shiftAcc (lookup t.body A) (w t.body) t.r)

def biasStationJ (ts : List (Tr K)) (a : Nat → SV K) (w : Nat → V3 K) (tasks : List (Task K)) : List (V3 K) :=
  (biasFrameJ ts a w tasks).map (·.v)

/-- acceleration of a task frame origin for given `udot`: body acceleration shifted to the task point -/
def accFrame (ts : List (Tr K)) (a : Nat → SV K) (w : Nat → V3 K) (tasks : List (Task K)) (ud : List K) :
    List (SV K) :=
  let A := sysAcc ts a ud
  tasks.map (fun t => shiftAcc (lookup t.body A) (w t.body) t.r)

/-! ## first-order jets (`K[ε]/(ε²)`): time derivatives by the product rule -/
structure Jet (K : Type) where
  re : K
  ep : K

instance : Add (Jet K) := ⟨fun a b => ⟨a.re + b.re, a.ep + b.ep⟩⟩
instance : Sub (Jet K) := ⟨fun a b => ⟨a.re - b.re, a.ep - b.ep⟩⟩
instance : Neg (Jet K) := ⟨fun a => ⟨-a.re, -a.ep⟩⟩
instance : Mul (Jet K) := ⟨fun a b => ⟨a.re * b.re, a.re * b.ep + a.ep * b.re⟩⟩
instance : OfNat (Jet K) 0 := ⟨⟨0, 0⟩⟩
instance : OfNat (Jet K) 1 := ⟨⟨1, 0⟩⟩

def V3.jet (a a' : V3 K) : V3 (Jet K) := ⟨⟨a.x, a'.x⟩, ⟨a.y, a'.y⟩, ⟨a.z, a'.z⟩⟩
def V3.re (a : V3 (Jet K)) : V3 K := ⟨a.x.re, a.y.re, a.z.re⟩
def V3.ep (a : V3 (Jet K)) : V3 K := ⟨a.x.ep, a.y.ep, a.z.ep⟩
def SV.jet (a a' : SV K) : SV (Jet K) := ⟨V3.jet a.w a'.w, V3.jet a.v a'.v⟩
def SV.re (a : SV (Jet K)) : SV K := ⟨V3.re a.w, V3.re a.v⟩
def SV.ep (a : SV (Jet K)) : SV K := ⟨V3.ep a.w, V3.ep a.v⟩

/-- the mobilizer's incremental Coriolis acceleration as `calcJointIndependentKinematicsVel` forms it:
`(VD.w, VD.v + ω_P × (v_B − v_P))` with `VD = HDot * u` -/
def mobCoriolis (VD : SV K) (wP vB vP : V3 K) : SV K :=
  ⟨VD.w, V3.add VD.v (V3.cross wP (V3.sub vB vP))⟩

end C04
