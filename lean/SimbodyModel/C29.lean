import SimbodyModel.Spatial
/-!
# C29 — model entry point

The model of property C29 (Inertia, UnitInertia, SpatialInertia, ArticulatedInertia, MassProperties and the spatial
shift operators of SpatialAlgebra.h) is the shared family file `SimbodyModel/Spatial.lean`:
`Inertia.*`, `UnitInertia.*`, `SpatialInertia.*`, `ArticulatedInertia.*`, `MassProperties.*`, `shiftVelocityBy`,
`shiftForceBy`, `shiftAccelerationBy`, `findRelative*`, `phi*`.  This file re-exports it under the per-property name.
-/
