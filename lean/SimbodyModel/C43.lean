import SimbodyModel.Proto
/-!
# C43 — Assembler / fitting: simbody's own decision logic and goal algebra + acceptance contract (Mathlib-free)

The optimizers the Assembler, ObservedPointFitter and LocalEnergyMinimizer call (IPOPT, L-BFGS(-B)) are vendored
and NOT modelled.  Modelled here (Simbody/src/Assembler.cpp, AssemblyCondition_Markers.cpp,
AssemblyCondition_OrientationSensors.cpp, ObservedPointFitter.cpp):

* `assembleDecide` / `trackDecide` — what `Assembler::assemble()` / `track()` do with the error norm and goal value
  before and after the optimizer: short circuit, `AssembleFailed`/`TrackFailed`, the "revert to the initial solution
  if we started feasible and the objective got worse" rule (assemble only), the returned value;
* `freeQs` / `freeBound` — `reinitializeWithExtraQsLocked`: which q's are free parameters (ascending, all q's that
  are not locked / prescribed) and which range each gets;
* `weightedGoal`, `markersGoal`, `osensorsGoal`, `totalGoal` — `Markers::calcGoal`, `OrientationSensors::calcGoal`
  (`Σ wᵢ dᵢ / (2 Σ wᵢ)`, observations containing NaN skipped) and the weighted sum of `AssemblerSystem::objectiveFunc`;
* `errNorm` — `calcCurrentErrorNorm` (infinity norm or RMS);
* `wrms` — the value `ObservedPointFitter::findBestFit` returns;
* the contract `acceptAsm` evaluated in exact `Rat` on the doubles of the returned state.
-/
namespace C43

section Scalar
variable {K : Type} [Add K] [Sub K] [Mul K] [Neg K] [Div K] [OfNat K 0] [OfNat K 1] [OfNat K 2]
variable [LE K] [DecidableLE K] [LT K] [DecidableLT K] [DecidableEq K]

/-- error norm and goal value of the Assembler's internal state as a reporter sees them -/
structure Seen (K : Type) where
  err : K
  goal : K

inductive Outcome (K : Type) where
  /-- success: returned goal value, the error norm the code *holds* for the state it leaves (`tolAchieved`), and whether
  the revert rule fired.  Only when `reverted = false` is `err` a value measured on the state left behind: in the revert
  branch the code reuses `initialErrorNorm`, which was measured before `prescribeQ` moved the prescribed q's. -/
  | ok (goal err : K) (reverted : Bool)
  /-- `AssembleFailed` / `TrackFailed` thrown -/
  | failed

/-- `Assembler::assemble()`.  `post` is the error norm / goal of the state the optimizer produced; `optThrew` says
whether the optimizer left by an exception (then a result above tolerance is rejected at once, before the revert rule
is looked at). -/
def assembleDecide (optThrew : Bool) (tol initErr initGoal : K) (post : Seen K) : Outcome K :=
  if initErr ≤ tol ∧ initGoal ≤ tol * tol then .ok initGoal initErr false
  else if optThrew = true ∧ tol < post.err then .failed
  else
    -- "See if we should just revert to the initial solution."
    let revert : Bool := decide (initErr ≤ tol) && decide (initGoal < post.goal)
    let err := if revert then initErr else post.err
    let goal := if revert then initGoal else post.goal
    if tol < err then .failed else .ok goal err revert

/-- `Assembler::track()`: same short circuit, no revert rule (so `optThrew` cannot change the outcome). -/
def trackDecide (optThrew : Bool) (tol initErr initGoal : K) (post : Seen K) : Outcome K :=
  if initErr ≤ tol ∧ initGoal ≤ tol * tol then .ok initGoal initErr false
  else if optThrew = true ∧ tol < post.err then .failed
  else if tol < post.err then .failed else .ok post.goal post.err false

/-! ### free q's -/

/-- the free q's in ascending order: every `q < nq` that is not locked (user-locked, locked mobilizer, prescribed) -/
def freeQs (nq : Nat) (locked : List Nat) : List Nat := (List.range nq).filter (fun q => !locked.contains q)

/-- range of a free q: the user's restriction if any (the last one given wins), else unbounded -/
def freeBound (ranges : List (Nat × K × K)) (q : Nat) : Option (K × K) :=
  match ranges.reverse.find? (fun r => r.1 == q) with
  | some r => some r.2
  | none => none

/-! ### goals -/

/-- `Σ wᵢ dᵢ / (2 Σ wᵢ)` over (weight, squared deviation) pairs -/
def weightedGoal (items : List (K × K)) : K :=
  (items.foldr (fun wd acc => wd.1 * wd.2 + acc) 0) / (2 * items.foldr (fun wd acc => wd.1 + acc) 0)

structure P3 (K : Type) where
  x : K
  y : K
  z : K

def distSq (p o : P3 K) : K := (p.x - o.x) * (p.x - o.x) + (p.y - o.y) * (p.y - o.y) + (p.z - o.z) * (p.z - o.z)

/-- `Markers::calcGoal` over the active markers (weight > 0) whose observation is finite (`none` = contains NaN) -/
def markersGoal (ms : List (K × P3 K × Option (P3 K))) : K :=
  weightedGoal (ms.filterMap (fun m => match m.2.2 with | some o => some (m.1, distSq m.2.1 o) | none => none))

/-- `OrientationSensors::calcGoal` from (weight, rotation-error angle) pairs -/
def osensorsGoal (ss : List (K × K)) : K := weightedGoal (ss.map (fun s => (s.1, s.2 * s.2)))

/-- `AssemblerSystem::objectiveFunc`: `Σ weight_c · goal_c` -/
def totalGoal (gs : List (K × K)) : K := gs.foldr (fun g acc => g.1 * g.2 + acc) 0

def absK (x : K) : K := if x < 0 then -x else x

/-- `calcCurrentErrorNorm`, infinity norm -/
def errNormInf (errs : List K) : K := errs.foldr (fun e acc => if acc < absK e then absK e else acc) 0

/-- `calcCurrentErrorNorm`, RMS (`sqrt` a parameter) -/
def errNormRMS (sqrt : K → K) (n : K) (errs : List K) : K := sqrt (errs.foldr (fun e acc => e * e + acc) 0 / n)

/-- `ObservedPointFitter::findBestFit` return value: weighted RMS distance -/
def wrms (sqrt : K → K) (items : List (K × K)) : K :=
  sqrt ((items.foldr (fun wd acc => wd.1 * wd.2 + acc) 0) / (items.foldr (fun wd acc => wd.1 + acc) 0))

/-! ### contract on the returned state -/

structure QInfo (K : Type) where
  kind : Nat            -- 0 free, 1 locked / prescribed, 2 free with range
  lo : Option K
  hi : Option K
  qStart : K
  qEnd : K

def qOK (relax : K) (i : QInfo K) : Bool :=
  if i.kind = 1 then decide (i.qEnd = i.qStart)
  else if i.kind = 2 then
    (match i.lo with | some a => decide (a - relax ≤ i.qEnd) | none => true)
    && (match i.hi with | some a => decide (i.qEnd ≤ a + relax) | none => true)
  else true

/-- `slack` is 0 for assemble (the revert rule makes it exact) -/
def acceptAsm (tol relax slack initErr initGoal ret finalErr finalGoal : K) (qs : List (QInfo K)) : Bool :=
  decide (finalErr ≤ tol) && decide (ret = finalGoal) && decide (0 ≤ ret) && qs.all (qOK relax)
  && (if initErr ≤ tol then decide (ret ≤ initGoal + slack) else true)

end Scalar
end C43
