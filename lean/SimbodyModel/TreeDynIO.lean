import SimbodyModel.Proto
import SimbodyModel.TreeDyn
/-!
# Parsing of the tree-family case records (shared by the drivers of C01, C02, C14, C15)

`I <fn> <caseSeed> <maxBodies> <flag> nb nu {idx parent d u0 l(3) m p(3) G(6) H(6 d)}×nb  <extra hex tokens…>`
-/
namespace TreeDyn
open Proto

/-- a cursor over the token array -/
structure Cur where
  toks : Array String
  pos : Nat

namespace Cur
def nat (c : Cur) : Nat × Cur := ((c.toks.getD c.pos "0").toNat!, { c with pos := c.pos + 1 })
def flt (c : Cur) : Float × Cur := (hexToFloat (c.toks.getD c.pos "0"), { c with pos := c.pos + 1 })
def flts (c : Cur) (n : Nat) : Array Float × Cur :=
  ((Array.range n).map (fun k => hexToFloat (c.toks.getD (c.pos + k) "0")), { c with pos := c.pos + n })
def v3 (c : Cur) : V3 Float × Cur :=
  let (a, c') := c.flts 3
  (⟨a.getD 0 0, a.getD 1 0, a.getD 2 0⟩, c')
def sv (c : Cur) : SV Float × Cur :=
  let (a, c1) := c.v3
  let (b, c2) := c1.v3
  (⟨a, b⟩, c2)
def svs (c : Cur) : Nat → List (SV Float) × Cur
  | 0 => ([], c)
  | n + 1 =>
    let (h, c1) := c.sv
    let (t, c2) := c1.svs n
    (h :: t, c2)
def remaining (c : Cur) : Nat := c.toks.size - c.pos
end Cur

def parseBody (c : Cur) : Body Float × Cur :=
  let (idx, c) := c.nat
  let (par, c) := c.nat
  let (d, c) := c.nat
  let (u0, c) := c.nat
  let (l, c) := c.v3
  let (m, c) := c.flt
  let (p, c) := c.v3
  let (g, c) := c.flts 6
  let (h, c) := c.svs d
  ({ idx := idx, parent := par, u0 := u0, l := l,
     Mk := ⟨m, p, ⟨g.getD 0 0, g.getD 1 0, g.getD 2 0, g.getD 3 0, g.getD 4 0, g.getD 5 0⟩⟩, H := h }, c)

def parseBodies (c : Cur) : Nat → List (Body Float) × Cur
  | 0 => ([], c)
  | n + 1 =>
    let (b, c1) := parseBody c
    let (bs, c2) := parseBodies c1 n
    (b :: bs, c2)

structure Header where
  flag : Nat
  nb : Nat
  nu : Nat
  bodies : List (Body Float)

/-- `toks` = the tokens after `I <fn>` -/
def parseHeader (toks : List String) : Header × Cur :=
  let c : Cur := ⟨toks.toArray, 2⟩      -- skip caseSeed, maxBodies
  let (flag, c) := c.nat
  let (nb, c) := c.nat
  let (nu, c) := c.nat
  let (bs, c) := parseBodies c nb
  (⟨flag, nb, nu, bs⟩, c)

def outLine (tag : String) (xs : List Float) : String := fmtFloats ("O " ++ tag) xs

end TreeDyn
