/-!
# Line protocol shared by every driver (Mathlib-free)

* doubles travel as 16-hex-digit bit patterns (exact, locale-free);
* a *case file* is a list of lines; records starting with `I` are inputs, records starting
  with `O` are outputs (the implementation's in the harness output, the model's in the
  driver output); everything else is commentary the driver ignores;
* `SplitMix` is the one PRNG every Lean-side generator derives its choices from.
-/
namespace Proto

def hexDigit (c : Char) : Nat :=
  if c.isDigit then c.toNat - '0'.toNat
  else if 'a' ≤ c ∧ c ≤ 'f' then c.toNat - 'a'.toNat + 10
  else if 'A' ≤ c ∧ c ≤ 'F' then c.toNat - 'A'.toNat + 10 else 0

def hexToNat (s : String) : Nat := s.foldl (fun acc c => acc * 16 + hexDigit c) 0

def hexToFloat (s : String) : Float := Float.ofBits (UInt64.ofNat (hexToNat s))

def natToHex (n : Nat) (digits : Nat) : String :=
  let ds := (List.range digits).map (fun i => (n / (16 ^ (digits - 1 - i))) % 16)
  String.ofList (ds.map (fun d => if d < 10 then Char.ofNat (d + 48) else Char.ofNat (d - 10 + 97)))

def floatToHex (x : Float) : String := natToHex x.toBits.toNat 16

def tokens (line : String) : List String :=
  (line.trimAscii.toString.splitOn " ").filter (· ≠ "")

partial def readLinesAux (h : IO.FS.Stream) (acc : Array String) : IO (Array String) := do
  let line ← h.getLine
  if line.isEmpty then return acc else readLinesAux h (acc.push line)

def readStdinLines : IO (Array String) := do readLinesAux (← IO.getStdin) #[]

def fmtFloats (tag : String) (xs : List Float) : String :=
  tag ++ (xs.foldl (fun s x => s ++ " " ++ floatToHex x) "")

/-- Run a pure-function family: every line `I <fn> <hex>...` is answered by
`O <fn> <hex>...` (or `O <fn> ERR` when the handler rejects the input). -/
def runPure (handle : String → List Float → Option (List Float)) : IO Unit := do
  let lines ← readStdinLines
  let out ← IO.getStdout
  for ln in lines do
    match tokens ln with
    | "I" :: fn :: args =>
      out.putStrLn ln.trimAscii.toString     -- echo the input record (the comparator pairs records by it)
      match handle fn (args.map hexToFloat) with
      | some r => out.putStrLn (fmtFloats ("O " ++ fn) r)
      | none   => out.putStrLn ("O " ++ fn ++ " ERR")
    | _ => pure ()

/-- SplitMix64: the single PRNG of all Lean-side generators. -/
structure SplitMix where
  s : UInt64

namespace SplitMix
def next (g : SplitMix) : UInt64 × SplitMix :=
  let s := g.s + 0x9E3779B97F4A7C15
  let z := s
  let z := (z ^^^ (z >>> 30)) * 0xBF58476D1CE4E5B9
  let z := (z ^^^ (z >>> 27)) * 0x94D049BB133111EB
  (z ^^^ (z >>> 31), ⟨s⟩)

/-- uniform in `[0, n)` (n > 0), slight modulo bias is irrelevant here -/
def below (g : SplitMix) (n : Nat) : Nat × SplitMix :=
  let (x, g') := g.next
  (x.toNat % (if n = 0 then 1 else n), g')

def bool (g : SplitMix) : Bool × SplitMix :=
  let (x, g') := g.next
  (x.toNat % 2 = 1, g')
end SplitMix

end Proto

namespace Proto
/-- exact rational value of a finite binary64 (NaN/Inf map to 0; callers test `isFinite` first) -/
def floatToRat (x : Float) : Rat :=
  let bits : Nat := x.toBits.toNat
  let neg : Bool := bits / 2 ^ 63 = 1
  let e : Nat := (bits / 2 ^ 52) % 2048
  let m : Nat := bits % 2 ^ 52
  if e = 2047 then 0 else
  let mag : Rat :=
    if e = 0 then mkRat (Int.ofNat m) (2 ^ 1074)
    else if e ≥ 1075 then mkRat (Int.ofNat ((2 ^ 52 + m) * 2 ^ (e - 1075))) 1
    else mkRat (Int.ofNat (2 ^ 52 + m)) (2 ^ (1075 - e))
  if neg then -mag else mag

/-- rational upper bound of `√x` for `x ≥ 0`, tight to 2⁻²⁰ relative (exact integer square root) -/
def sqrtUpper (x : Rat) : Rat :=
  if x ≤ 0 then 0 else
  let p : Nat := x.num.toNat
  let q : Nat := x.den
  -- √(p/q) = √(p q)/q ;  scale by 4^s so that the integer root carries ≥ 40 significant bits
  let s : Nat := 2 ^ 40
  mkRat (Int.ofNat (Nat.sqrt (p * q * s * s) + 1)) (q * s)
end Proto
