/-!
# TreeDyn — executable model of simbody's O(n) tree recursions (Mathlib-free, polymorphic in the scalar)

Shared by C01 (mass-matrix operators), C02 (forward / inverse dynamics), C14 (mobilizer reactions),
C15 (system aggregates, composite-body inertias).

Mirrors, formula by formula:
* `SimTKcommon/Mechanics`: `PhiMatrix * SpatialVec`, `~PhiMatrix * SpatialVec`, `SpatialInertia * SpatialVec`,
  `SpatialInertia::operator+=`, `SpatialInertia::shift`, `ArticulatedInertia(SpatialInertia)`,
  `ArticulatedInertia * SpatialVec`, `ArticulatedInertia::shift` (`halfCrossDiff`), `shiftForceBy`;
* `RigidBodyNodeSpec.cpp`: `multiplyByMPass1Outward / Pass2Inward`, `realizeArticulatedBodyInertiasInward`
  (incl. the explicit symmetrisation of `P⁺`), `multiplyByMInvPass1Inward / Pass2Outward`,
  `calcUDotPass1Inward / Pass2Outward`, `calcBodyAccelerationsFromUdotOutward`, `calcInverseDynamicsPass2Inward`,
  `multiplyBySystemJacobianTranspose`;
* `RigidBodyNode.cpp`: `calcKineticEnergy`, `realizeArticulatedBodyVelocityCache` (`P a + b`),
  `calcCompositeBodyInertiasInward`;
* `SimbodyMatterSubsystemRep.cpp`: the level loops (`multiplyByM`, `multiplyByMInv`, `calcM`, `calcMInv`,
  `calcTreeAccelerations`, `calcTreeResidualForces`, `calcMobilizerReactionForces`, `calcCompositeBodyInertias`,
  `calcKineticEnergy`) — the level-ordered loops are the two generic passes `Tr.mapUp` (tip-to-base) and
  `Tr.mapDown` (base-to-tip) over a rose tree;
* `SimbodyMatterSubsystem.cpp`: the system aggregates (`calcSystemMass`, `…MassCenter…`, `…Momentum…`).

The per-body data (`parent`, joint dimension = number of `H` columns, hinge columns `H` in Ground,
shift vector `l = p_PB_G`, spatial inertia `Mk_G`) are inputs ("exported-H mode": they come from the
implementation's public API; computing them from `q` belongs to C03/C05).
`D.invert()` is modelled by Gauss–Jordan elimination without pivoting (`D` is SPD).
-/
namespace TreeDyn

/-! ## generic rose tree with the two level-ordered passes -/

inductive Tr (α : Type) where
  | mk (x : α) (cs : List (Tr α)) : Tr α

namespace Tr
variable {α β γ : Type}

def val : Tr α → α | mk x _ => x
def kids : Tr α → List (Tr α) | mk _ cs => cs

mutual
/-- tip-to-base pass: the value at a node is computed from the node and the (already computed)
values at its children (in child order) -/
@[specialize] def mapUp (f : α → List β → β) : Tr α → Tr β
  | mk x cs => let cs' := mapUpL f cs; mk (f x (cs'.map val)) cs'
@[specialize] def mapUpL (f : α → List β → β) : List (Tr α) → List (Tr β)
  | [] => []
  | c :: cs => mapUp f c :: mapUpL f cs
end

mutual
/-- base-to-tip pass: `f parentState node = (value, stateForChildren)` -/
@[specialize] def mapDown (f : γ → α → β × γ) : Tr α → γ → Tr β
  | mk x cs, g => let r := f g x; mk r.1 (mapDownL f cs r.2)
@[specialize] def mapDownL (f : γ → α → β × γ) : List (Tr α) → γ → List (Tr β)
  | [], _ => []
  | c :: cs, g => mapDown f c g :: mapDownL f cs g
end

mutual
/-- preorder list of node values -/
def flatten : Tr α → List α
  | mk x cs => x :: flattenL cs
def flattenL : List (Tr α) → List α
  | [] => []
  | c :: cs => flatten c ++ flattenL cs
end

end Tr

/-! ## small structured linear algebra (mirrors Vec3 / Mat33 / SymMat33 / SpatialVec) -/

variable {K : Type} [Add K] [Sub K] [Mul K] [Neg K] [Div K] [OfNat K 0] [OfNat K 1] [OfNat K 2]

structure V3 (K : Type) where
  x : K
  y : K
  z : K

/-- full 3×3 matrix, by rows -/
structure M33 (K : Type) where
  r0 : V3 K
  r1 : V3 K
  r2 : V3 K

/-- `SymMat33`: diagonal and lower triangle `(1,0) (2,0) (2,1)` -/
structure Sym3 (K : Type) where
  a00 : K
  a11 : K
  a22 : K
  a10 : K
  a20 : K
  a21 : K

/-- `SpatialVec`: (angular, linear) -/
structure SV (K : Type) where
  w : V3 K
  v : V3 K

namespace V3
def zero : V3 K := ⟨0, 0, 0⟩
def add (a b : V3 K) : V3 K := ⟨a.x + b.x, a.y + b.y, a.z + b.z⟩
def sub (a b : V3 K) : V3 K := ⟨a.x - b.x, a.y - b.y, a.z - b.z⟩
def neg (a : V3 K) : V3 K := ⟨-a.x, -a.y, -a.z⟩
def smul (s : K) (a : V3 K) : V3 K := ⟨s * a.x, s * a.y, s * a.z⟩
def dot (a b : V3 K) : K := a.x * b.x + a.y * b.y + a.z * b.z
/-- `a % b` -/
def cross (a b : V3 K) : V3 K := ⟨a.y * b.z - a.z * b.y, a.z * b.x - a.x * b.z, a.x * b.y - a.y * b.x⟩
def toList (a : V3 K) : List K := [a.x, a.y, a.z]
end V3

namespace M33
def zero : M33 K := ⟨V3.zero, V3.zero, V3.zero⟩
def add (a b : M33 K) : M33 K := ⟨a.r0.add b.r0, a.r1.add b.r1, a.r2.add b.r2⟩
def sub (a b : M33 K) : M33 K := ⟨a.r0.sub b.r0, a.r1.sub b.r1, a.r2.sub b.r2⟩
def mulVec (m : M33 K) (v : V3 K) : V3 K := ⟨m.r0.dot v, m.r1.dot v, m.r2.dot v⟩
/-- `~m * v` -/
def tmulVec (m : M33 K) (v : V3 K) : V3 K :=
  ⟨m.r0.x * v.x + m.r1.x * v.y + m.r2.x * v.z,
   m.r0.y * v.x + m.r1.y * v.y + m.r2.y * v.z,
   m.r0.z * v.x + m.r1.z * v.y + m.r2.z * v.z⟩
def transpose (m : M33 K) : M33 K :=
  ⟨⟨m.r0.x, m.r1.x, m.r2.x⟩, ⟨m.r0.y, m.r1.y, m.r2.y⟩, ⟨m.r0.z, m.r1.z, m.r2.z⟩⟩
/-- outer product `a * ~b` -/
def outer (a b : V3 K) : M33 K := ⟨V3.smul a.x b, V3.smul a.y b, V3.smul a.z b⟩
/-- `crossMat(v)` -/
def crossMat (v : V3 K) : M33 K := ⟨⟨0, -v.z, v.y⟩, ⟨v.z, 0, -v.x⟩, ⟨-v.y, v.x, 0⟩⟩
def toList (m : M33 K) : List K := m.r0.toList ++ m.r1.toList ++ m.r2.toList
end M33

namespace Sym3
def zero : Sym3 K := ⟨0, 0, 0, 0, 0, 0⟩
def add (a b : Sym3 K) : Sym3 K :=
  ⟨a.a00 + b.a00, a.a11 + b.a11, a.a22 + b.a22, a.a10 + b.a10, a.a20 + b.a20, a.a21 + b.a21⟩
def sub (a b : Sym3 K) : Sym3 K :=
  ⟨a.a00 - b.a00, a.a11 - b.a11, a.a22 - b.a22, a.a10 - b.a10, a.a20 - b.a20, a.a21 - b.a21⟩
def smul (s : K) (a : Sym3 K) : Sym3 K := ⟨s * a.a00, s * a.a11, s * a.a22, s * a.a10, s * a.a20, s * a.a21⟩
/-- `SymMat33(s)`: `s` on the diagonal -/
def diag (s : K) : Sym3 K := ⟨s, s, s, 0, 0, 0⟩
def mulVec (m : Sym3 K) (v : V3 K) : V3 K :=
  ⟨m.a00 * v.x + m.a10 * v.y + m.a20 * v.z,
   m.a10 * v.x + m.a11 * v.y + m.a21 * v.z,
   m.a20 * v.x + m.a21 * v.y + m.a22 * v.z⟩
def toM33 (m : Sym3 K) : M33 K := ⟨⟨m.a00, m.a10, m.a20⟩, ⟨m.a10, m.a11, m.a21⟩, ⟨m.a20, m.a21, m.a22⟩⟩
/-- the explicit symmetrisation done in `realizeArticulatedBodyInertiasInward`:
`SymMat33(m00, (m10+m01)/2, m11, (m20+m02)/2, (m21+m12)/2, m22)` -/
def symmetrize (m : M33 K) : Sym3 K :=
  ⟨m.r0.x, m.r1.y, m.r2.z, (m.r1.x + m.r0.y) / 2, (m.r2.x + m.r0.z) / 2, (m.r2.y + m.r1.z) / 2⟩
/-- `UnitInertia::pointMassAt(p) = crossMatSq(p)` -/
def pointMassAt (p : V3 K) : Sym3 K :=
  ⟨p.y * p.y + p.z * p.z, p.x * p.x + p.z * p.z, p.x * p.x + p.y * p.y, -(p.x * p.y), -(p.x * p.z), -(p.y * p.z)⟩
/-- `s % M` = `crossMat(s) * M` -/
def crossLeft (s : V3 K) (m : Sym3 K) : M33 K :=
  let c0 : V3 K := s.cross ⟨m.a00, m.a10, m.a20⟩
  let c1 : V3 K := s.cross ⟨m.a10, m.a11, m.a21⟩
  let c2 : V3 K := s.cross ⟨m.a20, m.a21, m.a22⟩
  ⟨⟨c0.x, c1.x, c2.x⟩, ⟨c0.y, c1.y, c2.y⟩, ⟨c0.z, c1.z, c2.z⟩⟩
def toList (m : Sym3 K) : List K := [m.a00, m.a11, m.a22, m.a10, m.a20, m.a21]
end Sym3

namespace SV
def zero : SV K := ⟨V3.zero, V3.zero⟩
def add (a b : SV K) : SV K := ⟨a.w.add b.w, a.v.add b.v⟩
def sub (a b : SV K) : SV K := ⟨a.w.sub b.w, a.v.sub b.v⟩
def neg (a : SV K) : SV K := ⟨a.w.neg, a.v.neg⟩
def smul (s : K) (a : SV K) : SV K := ⟨V3.smul s a.w, V3.smul s a.v⟩
def dot (a b : SV K) : K := a.w.dot b.w + a.v.dot b.v
def toList (a : SV K) : List K := a.w.toList ++ a.v.toList
end SV

/-! ## shift operators -/

/-- `PhiMatrix(l) * v = (v.w + l % v.v, v.v)` : child-to-parent shift of a spatial force -/
def phiMul (l : V3 K) (f : SV K) : SV K := ⟨f.w.add (l.cross f.v), f.v⟩
/-- `~PhiMatrix(l) * v = (v.w, v.v + v.w % l)` : parent-to-child shift of a spatial velocity/acceleration -/
def phiTMul (l : V3 K) (a : SV K) : SV K := ⟨a.w, a.v.add (a.w.cross l)⟩
/-- `shiftForceBy(F, r) = (F.w - r % F.v, F.v)` -/
def shiftForceBy (f : SV K) (r : V3 K) : SV K := ⟨f.w.sub (r.cross f.v), f.v⟩

/-! ## spatial inertia (rigid body) -/

/-- `SpatialInertia`: mass, mass centre (from the body origin), unit inertia about the body origin -/
structure SpI (K : Type) where
  m : K
  p : V3 K
  G : Sym3 K

namespace SpI
/-- `SpatialInertia * SpatialVec = m * (G*w + p % v, v - p % w)` -/
def mulSV (s : SpI K) (a : SV K) : SV K :=
  SV.smul s.m ⟨(s.G.mulVec a.w).add (s.p.cross a.v), a.v.sub (s.p.cross a.w)⟩
/-- `SpatialInertia::operator+=` -/
def add (a b : SpI K) : SpI K :=
  let mtot := a.m + b.m
  let oomtot : K := 1 / mtot
  ⟨mtot, V3.smul oomtot ((V3.smul a.m a.p).add (V3.smul b.m b.p)),
   Sym3.smul oomtot ((Sym3.smul a.m a.G).add (Sym3.smul b.m b.G))⟩
/-- `SpatialInertia::shift(S)`: new origin `OF + S` -/
def shift (a : SpI K) (s : V3 K) : SpI K :=
  let gc := a.G.sub (Sym3.pointMassAt a.p)
  let pNew := a.p.sub s
  ⟨a.m, pNew, gc.add (Sym3.pointMassAt pNew)⟩
def toList (a : SpI K) : List K := a.m :: (a.p.toList ++ a.G.toList)
end SpI

/-! ## articulated body inertia -/

/-- `ArticulatedInertia`: `P = [J F; ~F M]` with `M`, `J` symmetric, `F` full -/
structure ArtI (K : Type) where
  M : Sym3 K
  J : Sym3 K
  F : M33 K

namespace ArtI
/-- `ArticulatedInertia(SpatialInertia)`: `M = m·1`, `J = m·G`, `F = crossMat(m·p)` -/
def ofSpI (s : SpI K) : ArtI K := ⟨Sym3.diag s.m, Sym3.smul s.m s.G, M33.crossMat (V3.smul s.m s.p)⟩
def add (a b : ArtI K) : ArtI K := ⟨a.M.add b.M, a.J.add b.J, a.F.add b.F⟩
def sub (a b : ArtI K) : ArtI K := ⟨a.M.sub b.M, a.J.sub b.J, a.F.sub b.F⟩
/-- `P * v = (J*w + F*v, ~F*w + M*v)` -/
def mulSV (p : ArtI K) (a : SV K) : SV K :=
  ⟨(p.J.mulVec a.w).add (p.F.mulVec a.v), (p.F.tmulVec a.w).add (p.M.mulVec a.v)⟩
/-- `halfCrossDiff(v, F, G)`: lower half of `vx*F - G*vx` -/
def halfCrossDiff (v : V3 K) (f g : M33 K) : Sym3 K :=
  { a00 := v.y * (f.r2.x + g.r0.z) - v.z * (f.r1.x + g.r0.y)
    a10 := v.z * (f.r0.x - g.r1.y) - v.x * f.r2.x + v.y * g.r1.z
    a11 := v.z * (f.r0.y + g.r1.x) - v.x * (f.r2.y + g.r1.z)
    a20 := v.x * f.r1.x - v.z * g.r2.y - v.y * (f.r0.x - g.r2.z)
    a21 := v.x * (f.r1.y - g.r2.z) - v.y * f.r0.y + v.z * g.r2.x
    a22 := v.x * (f.r1.z + g.r2.y) - v.y * (f.r0.z + g.r2.x) }
/-- `ArticulatedInertia::shift(s)`:  `F' = F + s % M`,  `J' = J + halfCrossDiff(s, ~F, F')`  (= `Φ(s) P ~Φ(s)`) -/
def shift (p : ArtI K) (s : V3 K) : ArtI K :=
  let fp := p.F.add (Sym3.crossLeft s p.M)
  ⟨p.M, p.J.add (halfCrossDiff s p.F.transpose fp), fp⟩
def toList (p : ArtI K) : List K := p.M.toList ++ p.J.toList ++ p.F.toList
end ArtI

/-! ## dense helpers for the `dof × dof` matrices `D`, `DI` -/

def ldot (a b : List K) : K := (List.zipWith (· * ·) a b).foldl (· + ·) 0
def lsub (a b : List K) : List K := List.zipWith (· - ·) a b
def lmulVec (m : List (List K)) (v : List K) : List K := m.map (fun r => ldot r v)
def lident (n : Nat) : List (List K) :=
  (List.range n).map (fun i => (List.range n).map (fun j => if i = j then (1 : K) else 0))
def lmul (a b : List (List K)) (bcols : Nat) : List (List K) :=
  a.map (fun r => (List.range bcols).map (fun j => ldot r (b.map (fun br => br.getD j 0))))

/-- Gauss–Jordan inverse without pivoting (stands for `Mat<dof,dof>::invert()` on the SPD matrix `D`) -/
def ginv (m : List (List K)) (n : Nat) : List (List K) :=
  let aug : List (List K) := List.zipWith (· ++ ·) m (lident n)
  let step (a : List (List K)) (k : Nat) : List (List K) :=
    let rk := a.getD k []
    let p := rk.getD k 1
    let rk' := rk.map (· / p)
    (List.range n).map (fun i =>
      if i = k then rk' else
        let ri := a.getD i []
        let f := ri.getD k 0
        lsub ri (rk'.map (f * ·)))
  ((List.range n).foldl step aug).map (fun row => row.drop n)

/-! ## hinge matrix as a list of spatial columns -/

/-- `H * u` -/
def hMul (h : List (SV K)) (u : List K) : SV K :=
  (List.zipWith (fun c s => SV.smul s c) h u).foldl SV.add SV.zero
/-- `~H * F` -/
def hTMul (h : List (SV K)) (f : SV K) : List K := h.map (fun c => c.dot f)

/-! ## bodies and trees -/

structure Body (K : Type) where
  idx : Nat
  parent : Nat
  u0 : Nat
  l : V3 K
  Mk : SpI K
  H : List (SV K)
  /-- `isUDotKnown`: the mobilizer's acceleration is prescribed (Motion) -/
  presc : Bool := false

def Body.d (b : Body K) : Nat := b.H.length

/-- children of node `p` (and recursively their subtrees) from the flat body list; `fuel` bounds the depth -/
def build (bs : List (Body K)) : Nat → Nat → List (Tr (Body K))
  | 0, _ => []
  | fuel + 1, p => (bs.filter (fun b => b.parent == p)).map (fun b => Tr.mk b (build bs fuel b.idx))

/-- the forest hanging off Ground (body 0) -/
def forest (bs : List (Body K)) : List (Tr (Body K)) := build bs (bs.length + 1) 0

def slice (v : Array K) (u0 d : Nat) : List K := (List.range d).map (fun k => v.getD (u0 + k) 0)

def scatter (nu : Nat) (parts : List (Nat × List K)) : Array K :=
  parts.foldl (fun (acc : Array K) (p : Nat × List K) =>
    (p.2.zipIdx).foldl (fun (a : Array K) (e : K × Nat) => a.setIfInBounds (p.1 + e.2) e.1) acc)
    (Array.replicate nu 0)

/-! ## multiplyByM  (pass 1 outward, pass 2 inward) -/

/-- `multiplyByMPass1Outward`: `A_GB = ~Phi * A_GP + H * udot` (state passed down = this body's `A_GB`) -/
def mulMOut (v : Array K) (aP : SV K) (b : Body K) : (Body K × SV K) × SV K :=
  let a := (phiTMul b.l aP).add (hMul b.H (slice v b.u0 b.d))
  ((b, a), a)

/-- `multiplyByMPass2Inward`: `F = Mk*A + Σ Phi_c F_c`, `tau = ~H F`.  Node value: (body, F, tau). -/
def mulMIn (x : Body K × SV K) (kids : List (Body K × SV K × List K)) : Body K × SV K × List K :=
  let f := kids.foldl (fun (acc : SV K) (c : Body K × SV K × List K) => acc.add (phiMul c.1.l c.2.1)) (x.1.Mk.mulSV x.2)
  (x.1, f, hTMul x.1.H f)

def multiplyByM (roots : List (Tr (Body K))) (nu : Nat) (v : Array K) : Array K :=
  let t1 := Tr.mapDownL (mulMOut v) roots SV.zero
  let t2 := Tr.mapUpL mulMIn t1
  scatter nu ((Tr.flattenL t2).map (fun x => (x.1.u0, x.2.2)))

/-- body accelerations `J v` (pass 1 alone = `multiplyBySystemJacobian`) -/
def bodyVelocities (roots : List (Tr (Body K))) (u : Array K) : List (Body K × SV K) :=
  Tr.flattenL (Tr.mapDownL (mulMOut u) roots SV.zero)

/-- `calcKineticEnergy = Σ ½ V·(Mk V)` with `V = J u` -/
def kineticEnergy (roots : List (Tr (Body K))) (u : Array K) : K :=
  (bodyVelocities roots u).foldl (fun (acc : K) (x : Body K × SV K) => acc + (x.2.dot (x.1.Mk.mulSV x.2)) / 2) 0

/-! ## articulated body inertias -/

structure Abi (K : Type) where
  P : ArtI K
  PPlus : ArtI K
  D : List (List K)
  DI : List (List K)
  G : List (SV K)

/-- `realizeArticulatedBodyInertiasInward` (for a prescribed mobilizer `P⁺ = P` and `D`, `DI`, `G` are not used) -/
def abiIn (b : Body K) (kids : List (Body K × Abi K)) : Body K × Abi K :=
  let p := kids.foldl (fun (acc : ArtI K) (c : Body K × Abi K) => acc.add (c.2.PPlus.shift c.1.l)) (ArtI.ofSpI b.Mk)
  if b.presc then (b, ⟨p, p, [], [], []⟩) else
  let ph : List (SV K) := b.H.map p.mulSV                        -- PH = P*H
  let dmat : List (List K) := b.H.map (fun hi => ph.map (fun pj => hi.dot pj))   -- D = ~H * PH
  let di := ginv dmat b.d                                          -- DI = D.invert()
  -- G = PH * DI : column j = Σ_k PH_k * DI(k,j)
  let g : List (SV K) := (List.range b.d).map (fun j => hMul ph (di.map (fun row => row.getD j 0)))
  let acc3 (f : SV K → SV K → M33 K) : M33 K :=
    (List.zipWith f g ph).foldl M33.add M33.zero
  let massMoment := acc3 (fun gk pk => M33.outer gk.w pk.v)        -- G.row(0) * ~PH.row(1)
  let mass := acc3 (fun gk pk => M33.outer gk.v pk.v)              -- G.row(1) * ~PH.row(1)
  let inertia := acc3 (fun gk pk => M33.outer gk.w pk.w)           -- G.row(0) * ~PH.row(0)
  let pplus := p.sub ⟨Sym3.symmetrize mass, Sym3.symmetrize inertia, massMoment⟩
  (b, ⟨p, pplus, dmat, di, g⟩)

def abiForest (roots : List (Tr (Body K))) : List (Tr (Body K × Abi K)) := Tr.mapUpL abiIn roots

/-! ## multiplyByMInv -/

/-- `multiplyByMInvPass1Inward`: `z = Σ Phi_c zPlus_c`, `eps = f - ~H z`, `zPlus = z + G eps`.
Node value: (body, abi, zPlus, eps) -/
def mInvIn (f : Array K) (x : Body K × Abi K) (kids : List (Body K × Abi K × SV K × List K)) :
    Body K × Abi K × SV K × List K :=
  let z := kids.foldl (fun (acc : SV K) (c : Body K × Abi K × SV K × List K) => acc.add (phiMul c.1.l c.2.2.1)) SV.zero
  if x.1.presc then (x.1, x.2, z, []) else
  let eps := lsub (slice f x.1.u0 x.1.d) (hTMul x.1.H z)
  (x.1, x.2, z.add (hMul x.2.G eps), eps)

/-- `multiplyByMInvPass2Outward`: `udot = DI eps - ~G APlus`, `A = APlus + H udot` -/
def mInvOut (aP : SV K) (x : Body K × Abi K × SV K × List K) : (Nat × List K) × SV K :=
  let aPlus := phiTMul x.1.l aP
  if x.1.presc then ((x.1.u0, x.1.H.map (fun _ => (0 : K))), aPlus) else
  let udot := lsub (lmulVec x.2.1.DI x.2.2.2) (hTMul x.2.1.G aPlus)
  ((x.1.u0, udot), aPlus.add (hMul x.1.H udot))

def multiplyByMInv (abi : List (Tr (Body K × Abi K))) (nu : Nat) (f : Array K) : Array K :=
  let t1 := Tr.mapUpL (mInvIn f) abi
  let t2 := Tr.mapDownL mInvOut t1 SV.zero
  scatter nu (Tr.flattenL t2)

def unitVec (nu i : Nat) : Array K := (Array.replicate nu (0 : K)).setIfInBounds i 1

/-- `calcM`: column `i` is `multiplyByM(e_i)` (returned column by column) -/
def calcM (roots : List (Tr (Body K))) (nu : Nat) : List (Array K) :=
  (List.range nu).map (fun i => multiplyByM roots nu (unitVec nu i))

/-- `calcMInv`: column `i` is `multiplyByMInv(e_i)` -/
def calcMInv (abi : List (Tr (Body K × Abi K))) (nu : Nat) : List (Array K) :=
  (List.range nu).map (fun i => multiplyByMInv abi nu (unitVec nu i))

/-! ## forward dynamics with bias (calcUDotPass1Inward / Pass2Outward) -/

/-- velocity-dependent and applied terms of one body: mobilizer Coriolis acceleration `a`,
gyroscopic force `b`, applied spatial body force `F` (all in Ground, at the body origin) -/
structure Bias (K : Type) where
  a : SV K
  b : SV K
  F : SV K

structure FwdNode (K : Type) where
  body : Body K
  abi : Abi K
  bias : Bias K
  z : SV K
  zPlus : SV K
  eps : List K

/-- `calcUDotPass1Inward` (non-prescribed): `z = (P a + b) - F + Σ Phi_c zPlus_c`, `eps = f - ~H z`,
`zPlus = z + G eps` -/
def fwdIn (f udotP : Array K) (x : Body K × Abi K × Bias K) (kids : List (FwdNode K)) : FwdNode K :=
  let z0 := ((x.2.1.P.mulSV x.2.2.a).add x.2.2.b).sub x.2.2.F
  -- prescribed: z += P (H udot_p)
  let z1 := if x.1.presc then z0.add (x.2.1.P.mulSV (hMul x.1.H (slice udotP x.1.u0 x.1.d))) else z0
  let z := kids.foldl (fun (acc : SV K) (c : FwdNode K) => acc.add (phiMul c.body.l c.zPlus)) z1
  let eps := lsub (slice f x.1.u0 x.1.d) (hTMul x.1.H z)
  ⟨x.1, x.2.1, x.2.2, z, if x.1.presc then z else z.add (hMul x.2.1.G eps), eps⟩

structure AccNode (K : Type) where
  body : Body K
  abi : Abi K
  zPlus : SV K
  aPlus : SV K
  udot : List K
  A : SV K
  /-- prescribed-motion force `tau = eps − ~H (P APlus)` (empty for a free mobilizer) -/
  tau : List K

/-- `calcUDotPass2Outward`: `APlus = ~Phi A_GP`, `udot = DI eps - ~G APlus`, `A_GB = APlus + H udot + a` -/
def fwdOut (udotP : Array K) (aP : SV K) (x : FwdNode K) : AccNode K × SV K :=
  let aPlus := phiTMul x.body.l aP
  let udot := if x.body.presc then slice udotP x.body.u0 x.body.d
              else lsub (lmulVec x.abi.DI x.eps) (hTMul x.abi.G aPlus)
  let tau := if x.body.presc then lsub x.eps (hTMul x.body.H (x.abi.P.mulSV aPlus)) else []
  let a := (aPlus.add (hMul x.body.H udot)).add x.bias.a
  (⟨x.body, x.abi, x.zPlus, aPlus, udot, a, tau⟩, a)

/-- attach per-body data (looked up by body index) to the abi-annotated forest -/
def attach {β : Type} (dflt : β) (tab : Array β) (x : Body K × Abi K) : Body K × Abi K × β :=
  (x.1, x.2, tab.getD x.1.idx dflt)

mutual
def Tr.map' {α β : Type} (f : α → β) : Tr α → Tr β
  | Tr.mk x cs => Tr.mk (f x) (Tr.mapL' f cs)
def Tr.mapL' {α β : Type} (f : α → β) : List (Tr α) → List (Tr β)
  | [] => []
  | c :: cs => Tr.map' f c :: Tr.mapL' f cs
end

def Bias.zero : Bias K := ⟨SV.zero, SV.zero, SV.zero⟩

/-- `calcTreeAccelerations`: returns the per-body results in preorder -/
def forwardDynamics (abi : List (Tr (Body K × Abi K))) (bias : Array (Bias K)) (f : Array K)
    (udotP : Array K := #[]) : List (AccNode K) :=
  let t0 := Tr.mapL' (attach Bias.zero bias) abi
  let t1 := Tr.mapUpL (fwdIn f udotP) t0
  Tr.flattenL (Tr.mapDownL (fwdOut udotP) t1 SV.zero)

def udotOf (nu : Nat) (r : List (AccNode K)) : Array K := scatter nu (r.map (fun x => (x.body.u0, x.udot)))

/-- `calcMobilizerReactionForces` at the body origin: `F_B = zPlus + PPlus * APlus` -/
def reactionAtOrigin (x : AccNode K) : SV K := x.zPlus.add (x.abi.PPlus.mulSV x.aPlus)

/-! ## inverse dynamics (calcBodyAccelerationsFromUdotOutward + calcInverseDynamicsPass2Inward) -/

/-- `A_GB = ~Phi A_GP + H udot + a` -/
def invOut (udot : Array K) (aP : SV K) (x : Body K × Bias K) : (Body K × Bias K × SV K) × SV K :=
  let a := ((phiTMul x.1.l aP).add (hMul x.1.H (slice udot x.1.u0 x.1.d))).add x.2.a
  ((x.1, x.2, a), a)

/-- `F = Mk A + b - F_applied + Σ Phi_c F_c`, `tau = ~H F - f`.  Node value: (body, A, F, tau) -/
def invIn (f : Array K) (x : Body K × Bias K × SV K) (kids : List (Body K × SV K × SV K × List K)) :
    Body K × SV K × SV K × List K :=
  let f0 := ((x.1.Mk.mulSV x.2.2).add x.2.1.b).sub x.2.1.F
  let fo := kids.foldl (fun (acc : SV K) (c : Body K × SV K × SV K × List K) => acc.add (phiMul c.1.l c.2.2.1)) f0
  (x.1, x.2.2, fo, lsub (hTMul x.1.H fo) (slice f x.1.u0 x.1.d))

/-- `calcTreeResidualForces`; per body (preorder): (body, A_GB, F through the mobilizer at Bo, residual) -/
def inverseDynamics (roots : List (Tr (Body K))) (bias : Array (Bias K)) (f udot : Array K) :
    List (Body K × SV K × SV K × List K) :=
  let t0 := Tr.mapL' (fun (b : Body K) => (b, bias.getD b.idx Bias.zero)) roots
  let t1 := Tr.mapDownL (invOut udot) t0 SV.zero
  Tr.flattenL (Tr.mapUpL (invIn f) t1)

def residualOf (nu : Nat) (r : List (Body K × SV K × SV K × List K)) : Array K :=
  scatter nu (r.map (fun x => (x.1.u0, x.2.2.2)))

/-- `multiplyBySystemJacobianTranspose`: `z = F + Σ Phi_c z_c`, `out = ~H z` -/
def jtIn (forces : Array (SV K)) (b : Body K) (kids : List (Body K × SV K × List K)) : Body K × SV K × List K :=
  let z := kids.foldl (fun (acc : SV K) (c : Body K × SV K × List K) => acc.add (phiMul c.1.l c.2.1)) (forces.getD b.idx SV.zero)
  (b, z, hTMul b.H z)

def multiplyByJT (roots : List (Tr (Body K))) (nu : Nat) (forces : Array (SV K)) : Array K :=
  scatter nu ((Tr.flattenL (Tr.mapUpL (jtIn forces) roots)).map (fun x => (x.1.u0, x.2.2)))

/-! ## composite body inertias and system aggregates (C15) -/

/-- `calcCompositeBodyInertiasInward`: `R = Mk + Σ R_c.shift(-l_c)` -/
def cbiIn (b : Body K) (kids : List (Body K × SpI K)) : Body K × SpI K :=
  (b, kids.foldl (fun (acc : SpI K) (c : Body K × SpI K) => acc.add (c.2.shift c.1.l.neg)) b.Mk)

def compositeInertias (roots : List (Tr (Body K))) : List (Body K × SpI K) :=
  Tr.flattenL (Tr.mapUpL cbiIn roots)

end TreeDyn
