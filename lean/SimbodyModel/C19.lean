/-!
# C19 — the step / report / final-time contract of `Integrator::stepTo`  (kind D, exact)

Model of `AbstractIntegratorRep::stepTo` (SimTKmath/Integrators/src/AbstractIntegratorRep.cpp), the one
`stepTo` shared on this tree by RungeKuttaMerson/Feldberg/3/2, Verlet, ExplicitEuler, SemiExplicitEuler and
SemiExplicitEuler2, together with the bits of `IntegratorRep` it touches (`initialize`, `reinitialize`,
`getState`, `isSimulationOver`).

Times are elements of an arbitrary type `T` with a decidable order: the code only *compares* times and takes
`std::min`, so the model is exact when `T := Rat` and doubles are read bit-exactly (`+∞` is read as a number
larger than every finite double).  `takeOneStep` is an ORACLE: the model is given the list of answers
`(t1, eventOccurred, tLow)` of the successive internal steps and checks each against the contract
`ansOK` (`t0 < t1 ≤ tMax`; window inside the step; the report time not strictly inside the window).

Mathlib-free; the theorems are in `SimbodyProofs/C19.lean`.
-/
namespace C19

/-- `IntegratorRep::StepCommunicationStatus` -/
inductive SCS where
  | completedNoEvent      -- CompletedInternalStepNoEvent
  | completedWithEvent    -- CompletedInternalStepWithEvent
  | returnedNoEvent       -- StepHasBeenReturnedNoEvent
  | returnedWithEvent     -- StepHasBeenReturnedWithEvent
  | finalReturned         -- FinalTimeHasBeenReturned
  deriving DecidableEq, Repr, Inhabited

/-- `Integrator::SuccessfulStepStatus` -/
inductive Status where
  | reachedReportTime | reachedEventTrigger | reachedScheduledEvent | timeHasAdvanced
  | reachedStepLimit | endOfSimulation | startOfContinuousInterval
  deriving DecidableEq, Repr, Inhabited

/-- numeric value of the C++ enum -/
def Status.code : Status → Nat
  | .reachedReportTime => 1 | .reachedEventTrigger => 2 | .reachedScheduledEvent => 3
  | .timeHasAdvanced => 4 | .reachedStepLimit => 5 | .endOfSimulation => 6
  | .startOfContinuousInterval => 7

/-- the user options `stepTo` reads -/
structure Opts (T : Type) where
  finalTime   : T      -- `userFinalTime == -1 ? Infinity : userFinalTime`
  returnEvery : Bool   -- `userReturnEveryInternalStep == 1`
  stepLimit   : Nat    -- `userInternalStepLimit` (0: none; the code tests `> 0`)
  noInterp    : Bool   -- `userAllowInterpolation == 0`

/-- the part of `IntegratorRep`'s state the status machine reads or writes -/
structure St (T : Type) where
  scs       : SCS
  tAdv      : T       -- advancedState.getTime()
  tPrev     : T
  tLow      : T       -- event window (valid in the two `…WithEvent` states)
  tHigh     : T
  useInterp : Bool    -- useInterpolatedState
  tInterp   : T       -- interpolatedState.getTime()
  startCI   : Bool    -- startOfContinuousInterval
  tRep      : T       -- GHOST: the `tReport` argument of the most recent `takeOneStep`

/-- what one `takeOneStep` call did: new advanced time (`tHigh` if an event was localised), event flag, `tLow` -/
structure Ans (T : Type) where
  t1    : T
  event : Bool
  tLow  : T

inductive Phase (T : Type) where
  | ret (st : Status) (s : St T)
  | refuse (s : St T)
  | advance (s : St T)

inductive Outcome (T : Type) where
  | ret (st : Status) (s : St T) (rest : List (Ans T))   -- normal return; unused oracle answers
  | refused (s : St T)                                   -- the SimTK_ERRCHK2_ALWAYS in case FinalTimeHasBeenReturned
  | starved (s : St T)                                   -- the machine wants another internal step but the oracle list is empty
  | badOracle (s : St T)                                 -- an oracle answer violates the contract of takeOneStep

section
variable {T : Type} [LT T] [LE T] [DecidableLT T] [DecidableLE T] [DecidableEq T]

/-- `std::min(a,b)` = `(b < a) ? b : a` -/
def mn (a b : T) : T := if b < a then b else a

/-- `getState().getTime()` -/
def St.time (s : St T) : T := if s.useInterp then s.tInterp else s.tAdv

/-- `isSimulationOver()` -/
def St.over (s : St T) : Bool := decide (s.scs = .finalReturned)

/-- state after `Integrator::initialize` at time `t0` -/
def init (t0 : T) : St T :=
  { scs := .completedNoEvent, tAdv := t0, tPrev := t0, tLow := t0, tHigh := t0,
    useInterp := false, tInterp := t0, startCI := true, tRep := t0 }

/-- `IntegratorRep::reinitialize(stage, shouldTerminate)`; `lowered` = `stage < Stage::Report` -/
def reinit (lowered terminate : Bool) (s : St T) : St T :=
  let s1 := if lowered then { s with startCI := true, useInterp := false } else s
  if terminate then { s1 with scs := .finalReturned } else s1

/-- `tMax` as passed to `takeOneStep` -/
def tMaxOf (o : Opts T) (report sched : T) : T :=
  let tMax := mn sched o.finalTime
  let tReturn := mn report tMax
  if o.noInterp then tReturn else tMax

/-- cases `StepHasBeenReturnedWithEvent` (after `setUseInterpolatedState(false)`) and
`CompletedInternalStepNoEvent` of the switch -/
def completedCase (o : Opts T) (report sched : T) (taken : Nat) (s : St T) : Phase T :=
  if report ≤ s.tAdv then
    if report < s.tAdv then
      .ret .reachedReportTime { s with tInterp := report, useInterp := true }
    else
      .ret .reachedReportTime { s with useInterp := false, scs := .returnedNoEvent }
  else
    let s := { s with useInterp := false }
    if sched ≤ s.tAdv then .ret .reachedScheduledEvent { s with scs := .returnedNoEvent }
    else if o.returnEvery then .ret .timeHasAdvanced { s with scs := .returnedNoEvent }
    else if o.finalTime ≤ s.tAdv then .ret .reachedReportTime { s with scs := .returnedNoEvent }
    else if 0 < o.stepLimit ∧ o.stepLimit ≤ taken then .ret .reachedStepLimit { s with scs := .returnedNoEvent }
    else .advance s

/-- the `switch (getStepCommunicationStatus())` at the top of the main stepping loop -/
def phase (o : Opts T) (report sched : T) (taken : Nat) (s : St T) : Phase T :=
  match s.scs with
  | .finalReturned => .refuse { s with tPrev := s.tAdv }
  | .returnedNoEvent =>
      if o.finalTime ≤ s.tAdv then
        .ret .endOfSimulation { s with useInterp := false, scs := .finalReturned }
      else .advance s
  | .completedWithEvent =>
      if report ≤ s.tLow then
        if report < s.tAdv then
          .ret .reachedReportTime { s with tInterp := report, useInterp := true }
        else
          .ret .reachedReportTime { s with useInterp := false }
      else
        .ret .reachedEventTrigger { s with tInterp := s.tLow, useInterp := true, scs := .returnedWithEvent }
  | .returnedWithEvent => completedCase o report sched taken { s with useInterp := false }
  | .completedNoEvent => completedCase o report sched taken s

/-- contract of `takeOneStep(tMax, tReport)` started from advanced time `s.tAdv` -/
def ansOK (o : Opts T) (report sched : T) (s : St T) (a : Ans T) : Bool :=
  decide (s.tAdv < a.t1) && decide (a.t1 ≤ tMaxOf o report sched) &&
  (!a.event || (decide (s.tAdv ≤ a.tLow) && decide (a.tLow < a.t1)
                && !(decide (a.tLow < report) && decide (report < a.t1))))

/-- bookkeeping around `takeOneStep`: `saveTimeAndStateAsPrevious`, the advanced state moves to `t1`
(= `tHigh` when an event was localised: `setTriggeredEvents` + `backUpAdvancedStateByInterpolation`) -/
def applyStep (report : T) (s : St T) (a : Ans T) : St T :=
  { s with tPrev := s.tAdv, tAdv := a.t1,
           tLow := if a.event then a.tLow else s.tLow,
           tHigh := if a.event then a.t1 else s.tHigh,
           scs := if a.event then .completedWithEvent else .completedNoEvent,
           tRep := report }

/-- the main stepping loop `for(;;)` of `stepTo`; `taken` = `internalStepsTaken` -/
def loop (o : Opts T) (report sched : T) (orc : List (Ans T)) (taken : Nat) (s : St T) : Outcome T :=
  match phase o report sched taken s with
  | .refuse s' => .refused s'
  | .ret st s' => .ret st s' orc
  | .advance s' =>
    if s'.time = report then .ret .reachedReportTime s' orc
    else if s'.time = sched then .ret .reachedScheduledEvent s' orc
    else
      match orc with
      | [] => .starved s'
      | a :: rest =>
        if ansOK o report sched s' a then loop o report sched rest (taken + 1) (applyStep report s' a)
        else .badOracle s'

/-- `AbstractIntegratorRep::stepTo(reportTime, scheduledEventTime)` -/
def stepTo (o : Opts T) (report sched : T) (orc : List (Ans T)) (s : St T) : Outcome T :=
  if s.startCI then
    .ret .startOfContinuousInterval { s with startCI := false, scs := .returnedNoEvent } orc
  else loop o report sched orc 0 s

/-- caller obligations: the two `assert`s at the top of `stepTo`, plus: a scheduled time that lies BEHIND the advanced
state (possible because the asserts only compare with `getTime()`, which may be an interpolated earlier time) is not
earlier than the report time.  `TimeStepper` satisfies this: it passes `min(nextScheduledEvent, t)` with `nextScheduledEvent`
beyond the advanced time, so a scheduled time behind the advanced state is the caller's own `t` = the report time.
A direct API user who violates it gets `ReachedScheduledEvent` later than the scheduled time (harness class
`schedBehindAdvanced`, notes/C19.md). -/
def legalReq (report sched : T) (s : St T) : Bool :=
  decide (s.time ≤ report) && decide (s.time ≤ sched) && (decide (s.tAdv ≤ sched) || decide (report ≤ sched))

/-- the two `assert`s alone -/
def assertsOK (report sched : T) (s : St T) : Bool :=
  decide (s.time ≤ report) && decide (s.time ≤ sched)

/-- `reinitialize` is only issued after an event-type return (as `TimeStepper` does) -/
def reinitOK (s : St T) : Bool :=
  decide (s.scs = .returnedNoEvent) || decide (s.scs = .returnedWithEvent) || decide (s.scs = .finalReturned)

end
end C19
