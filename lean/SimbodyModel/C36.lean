import SimbodyModel.C34
/-!
# C36 — mesh queries and bounding volumes: executable model

* `Obb`: `OrientedBoundingBox::containsPoint / findNearestPoint / intersectsRay` (`OrientedBoundingBox.cpp`);
* `triNearest`: `TriangleMesh::Impl::findNearestPointToFace` (Eberly's seven regions, as coded after fix b3f19b8d);
* `triRay`: the leaf test of `OBBTreeNodeImpl::intersectsRay`;
* `BT` / `search`: the branch-and-bound descent shared by `OBBTreeNodeImpl::findNearestPoint` and
  `OBBTreeNodeImpl::intersectsRay` over an *abstract* tree whose nodes carry the query's lower bounds
  (`none` = the node's box is not reached), with an abstract cost (`none` = the item is no candidate);
  the `100·Eps` angle tie-break of the C++ is below the comparison tolerance and is not modelled;
* `bruteForce`: the same cost minimised over all items;
* `sphere2`, `sphere3`: `Geo::Point::calcBoundingSphere` for two and three points (without `stretchBoundary`);
* `Topo`: adjacency tables of a mesh with a decidable consistency predicate.
-/
namespace Geom
namespace Msh
variable {K : Type} [Add K] [Sub K] [Mul K] [Neg K] [Div K]
variable [OfNat K 0] [OfNat K 1] [OfNat K 2] [LT K] [DecidableLT K]

/-! ## oriented bounding box: frame `X` (corner at the frame origin), extent `size` -/
structure Obb (K : Type) where
  X : Xf K
  size : V3 K

def within (s c : K) : Bool := !decide (c < 0) && !decide (s < c)
/-- `containsPoint` -/
def Obb.contains (b : Obb K) (p : V3 K) : Bool :=
  let q := Xf.inv b.X p
  within b.size.x q.x && within b.size.y q.y && within b.size.z q.z
/-- the two sequential clamps `if (p<0) p=0; if (p>size) p=size;` -/
def clampTo (s c : K) : K :=
  let c1 := if c < 0 then 0 else c
  if s < c1 then s else c1
/-- `findNearestPoint` -/
def Obb.nearest (b : Obb K) (p : V3 K) : V3 K :=
  let q := Xf.inv b.X p
  Xf.app b.X ⟨clampTo b.size.x q.x, clampTo b.size.y q.y, clampTo b.size.z q.z⟩
/-- squared distance from `p` to the box: the lower bound used by the nearest-point descent -/
def Obb.dist2 (b : Obb K) (p : V3 K) : K := V3.normSq (V3.sub (b.nearest p) p)

/-- one slab of `OrientedBoundingBox::intersectsRay`; state = (minDist, maxDist) as options (`none` = ∓∞);
returns `none` when the ray is rejected -/
def slab (o d s : K) (st : Option K × Option K) : Option (Option K × Option K) :=
  if d < 0 ∨ 0 < d then
    let d1 := -o / d
    let d2 := (s - o) / d
    let lo := if d1 < d2 then d1 else d2
    let hi := if d1 < d2 then d2 else d1
    let mn := match st.1 with | none => lo | some m => if m < lo then lo else m
    let mx := match st.2 with | none => hi | some m => if hi < m then hi else m
    if mx < mn ∨ mx < 0 then none else some (some mn, some mx)
  else
    if o < 0 ∨ s < o then none else some st

/-- `intersectsRay(origin, direction, distance)`: `some minDist` (−∞ is represented by a very negative bound `negInf`
supplied by the caller, as `MostNegativeReal` in the C++) -/
def Obb.ray (negInf : K) (b : Obb K) (o d : V3 K) : Option K :=
  let oo := Xf.inv b.X o
  let dd := M3.tmulVec b.X.R d
  match slab oo.x dd.x b.size.x (none, none) with
  | none => none
  | some s1 => match slab oo.y dd.y b.size.y s1 with
    | none => none
    | some s2 => match slab oo.z dd.z b.size.z s2 with
      | none => none
      | some s3 => let m := (match s3.1 with | none => negInf | some m => m)
                   some (if 0 < m then m else 0)      -- `distance = minDist > 0 ? minDist : 0`

/-! ## point – triangle (`findNearestPointToFace`), returns (point, s, t) with point = v1 + s e0 + t e1 -/
def triNearest (v1 v2 v3 p : V3 K) : V3 K × K × K :=
  let e0 := V3.sub v2 v1
  let e1 := V3.sub v3 v1
  let delta := V3.sub v1 p
  let a := V3.normSq e0
  let b := V3.dot e0 e1
  let c := V3.normSq e1
  let d := V3.dot e0 delta
  let e := V3.dot e1 delta
  let det := a * c - b * b
  let s := b * e - c * d
  let t := b * d - a * e
  let le (x y : K) : Bool := !decide (y < x)          -- x <= y
  let ge (x y : K) : Bool := !decide (x < y)          -- x >= y
  let edgeT : K := if ge e 0 then 0 else (if ge (-e) c then 1 else -e / c)       -- clamp of -e/c to [0,1]
  let edgeS : K := if ge d 0 then 0 else (if ge (-d) a then 1 else -d / a)       -- clamp of -d/a to [0,1]
  let st : K × K :=
    if le (s + t) det then
      if s < 0 then
        if t < 0 then                                   -- region 4
          if d < 0 then ((if ge (-d) a then 1 else -d / a), 0) else (0, edgeT)
        else (0, edgeT)                                 -- region 3
      else if t < 0 then (edgeS, 0)                     -- region 5
      else (s * (1 / det), t * (1 / det))               -- region 0
    else
      if s < 0 then                                     -- region 2
        let temp0 := b + d
        let temp1 := c + e
        if temp0 < temp1 then
          let numer := temp1 - temp0
          let denom := a - 2 * b + c
          let s' := if ge numer denom then 1 else numer / denom
          (s', 1 - s')
        else (0, if le temp1 0 then 1 else (if ge e 0 then 0 else -e / c))
      else if t < 0 then                                -- region 6
        let temp0 := b + e
        let temp1 := a + d
        if temp0 < temp1 then
          let numer := temp1 - temp0
          let denom := a - 2 * b + c
          let t' := if ge numer denom then 1 else numer / denom
          (1 - t', t')
        else ((if le temp1 0 then 1 else (if ge d 0 then 0 else -d / a)), 0)     -- `d >= 0` since fix b3f19b8d (was `e >= 0`, finding F12)
      else                                              -- region 1
        let numer := c + e - b - d
        let s' := if le numer 0 then 0 else
          (let denom := a - 2 * b + c; if ge numer denom then 1 else numer / denom)
        (s', 1 - s')
  (V3.add v1 (V3.add (V3.smul st.1 e0) (V3.smul st.2 e1)), st.1, st.2)

/-- squared distance from `p` to the triangle as the code computes it -/
def triDist2 (v1 v2 v3 p : V3 K) : K := V3.normSq (V3.sub (triNearest v1 v2 v3 p).1 p)

/-! ## ray – triangle: the leaf test of `OBBTreeNodeImpl::intersectsRay` (`n` = stored unit face normal) -/
def comp (v : V3 K) (i : Nat) : K := match i with | 0 => v.x | 1 => v.y | _ => v.z
def cross2 (a b : K × K) : K := a.1 * b.2 - a.2 * b.1

def triRay (n v1 v2 v3 o d : V3 K) : Option K :=
  let vd := V3.dot n d
  if vd < 0 ∨ 0 < vd then
    let v0 := V3.dot n (V3.sub v1 o)
    let t := v0 / vd
    if t < 0 then none else
    let ri : V3 K := ⟨o.x + d.x * t, o.y + d.y * t, o.z + d.z * t⟩
    let (ax1, ax2) : Nat × Nat :=
      if absK n.x < absK n.y then
        (if absK n.y < absK n.z then (0, 1) else (0, 2))
      else
        (if absK n.x < absK n.z then (0, 1) else (1, 2))
    let pos : K × K := (comp ri ax1 - comp v1 ax1, comp ri ax2 - comp v1 ax2)
    let edge1 : K × K := (comp v1 ax1 - comp v2 ax1, comp v1 ax2 - comp v2 ax2)
    let edge2 : K × K := (comp v1 ax1 - comp v3 ax1, comp v1 ax2 - comp v3 ax2)
    let denom := 1 / cross2 edge1 edge2
    let e2 : K × K := (edge2.1 * denom, edge2.2 * denom)
    let v := cross2 e2 pos
    if v < 0 ∨ 1 < v then none else
    let e1 : K × K := (edge1.1 * denom, edge1.2 * denom)
    let w := cross2 pos e1
    if w < 0 ∨ 1 < w then none else
    let u := 1 - v - w
    if u < 0 ∨ 1 < u then none else some t
  else none

/-! ## branch and bound over an abstract tree -/
inductive BT (α : Type) (K : Type) where
  | leaf (items : List α)
  | node (b1 : Option K) (t1 : BT α K) (b2 : Option K) (t2 : BT α K)

/-- `a < b` with `none` = +∞ -/
def olt : Option K → Option K → Bool
  | some a, some b => decide (a < b)
  | some _, none => true
  | none, _ => false

variable {α : Type}
/-- leaf loop: an item replaces the current best iff its cost is strictly smaller -/
def bestOf (c : α → Option K) (items : List α) : Option α :=
  items.foldl (fun acc x => if olt (c x) (acc.bind c) then some x else acc) none

/-- keep the first result unless the second is at least as good (`if (d1 < d2) first else second`) -/
def pick (c : α → Option K) (r1 r2 : Option α) : Option α := if olt (r1.bind c) (r2.bind c) then r1 else r2

def BT.items : BT α K → List α
  | .leaf xs => xs
  | .node _ t1 _ t2 => t1.items ++ t2.items

/-- the descent: the child with the smaller bound first; the other one only if its bound is below the cost found -/
def search (c : α → Option K) : BT α K → Option α
  | .leaf xs => bestOf c xs
  | .node b1 t1 b2 t2 =>
    if olt b1 b2 then
      let r1 := search c t1
      let r2 := if olt b2 (r1.bind c) then search c t2 else none
      pick c r1 r2
    else
      let r2 := if b2.isSome then search c t2 else none
      let r1 := if olt b1 (r2.bind c) then search c t1 else none
      pick c r1 r2

def bruteForce (c : α → Option K) (t : BT α K) : Option α := bestOf c t.items

/-! ## the exported OBB tree of a mesh and the two mesh queries as the driver runs them -/
/-- the real tree as exported through `getOBBTreeNode()`: every node has its box; leaves list their faces -/
inductive XT (K : Type) where
  | leaf (box : Obb K) (faces : List Nat)
  | node (box : Obb K) (c1 c2 : XT K)

def XT.box : XT K → Obb K
  | .leaf b _ => b
  | .node b _ _ => b
def XT.faces : XT K → List Nat
  | .leaf _ fs => fs
  | .node _ c1 c2 => c1.faces ++ c2.faces
/-- the abstract tree of one query: the children's bounds are computed from their boxes -/
def XT.toBT (bound : Obb K → Option K) : XT K → BT Nat K
  | .leaf _ fs => .leaf fs
  | .node _ c1 c2 => .node (bound c1.box) (c1.toBT bound) (bound c2.box) (c2.toBT bound)

/-- `TriangleMesh::findNearestPoint`: descent with the box distances as bounds and `triDist2` as cost;
`tri f` = the three vertices of face `f` -/
def meshNearest (tri : Nat → V3 K × V3 K × V3 K) (tree : XT K) (p : V3 K) : Option Nat :=
  search (fun f => some (triDist2 (tri f).1 (tri f).2.1 (tri f).2.2 p)) (tree.toBT (fun b => some (b.dist2 p)))

/-- `TriangleMesh::intersectsRay`: the root box is tested first (`if (!root.bounds.intersectsRay) return false`), then the
descent with the boxes' ray entry distances as bounds; `cost f` = hit parameter of face `f` (`triRay`) -/
def meshRay (negInf : K) (cost : Nat → Option K) (tree : XT K) (o d : V3 K) : Option Nat :=
  match tree.box.ray negInf o d with
  | none => none
  | some _ => search cost (tree.toBT (fun b => b.ray negInf o d))

/-! ## bounding spheres of two and three points (`Geo::Point::calcBoundingSphere`), centre and radius -/
def sphere2 (sqrt : K → K) (tol : K) (p0 p1 : V3 K) : V3 K × K :=
  let ctr := V3.sdiv (V3.add p0 p1) 2
  let d0 := V3.normSq (V3.sub p0 ctr)
  let d1 := V3.normSq (V3.sub p1 ctr)
  if d0 < d1 then
    let rad := sqrt d1
    if tol / 2 < rad then (ctr, rad) else (p0, 0)
  else
    let rad := sqrt d0
    if tol / 2 < rad then (ctr, rad) else (p1, 0)

def max3 (a b c : K) : K := let m := if a < b then b else a; if m < c then c else m
/-- index of the maximum / minimum with the tie rule of `maxOf`/`minOf` (first wins) -/
def argmax3 (a b c : K) : Nat := let (m, i) := if a < b then (b, 1) else (a, 0); if m < c then 2 else i
def argmin3 (a b c : K) : Nat := let (m, i) := if b < a then (b, 1) else (a, 0); if c < m then 2 else i
def min3 (a b c : K) : K := let m := if b < a then b else a; if c < m then c else m

def sphere3 (sqrt : K → K) (tol : K) (a b c : V3 K) (force : Bool) : V3 K × K :=
  let ab := V3.sub b a
  let ac := V3.sub c a
  let ab2 := V3.normSq ab
  let ac2 := V3.normSq ac
  let abac := V3.dot ab ac
  let ab2ac2 := ab2 * ac2
  let dm2 := 2 * (ab2ac2 - abac * abac)
  let edge (k : Nat) : V3 K := match k with
    | 0 => (sphere2 sqrt tol a b).1
    | 1 => (sphere2 sqrt tol a c).1
    | _ => (sphere2 sqrt tol b c).1
  let ctr : V3 K :=
    if ¬ ((2 + 2 + 2 + 2) * (tol * tol) < dm2) then
      let bc2 := V3.normSq (V3.sub c b)
      edge (argmax3 ab2 ac2 bc2)
    else
      let ds2 := ab2ac2 - ac2 * abac
      let dt2 := ab2ac2 - ab2 * abac
      let du2 := dm2 - ds2 - dt2
      let oodm2 := 1 / dm2
      let s := ds2 * oodm2
      let t := dt2 * oodm2
      let u := du2 * oodm2
      if !force && !decide (0 < min3 s t u) then
        match argmin3 s t u with
        | 0 => edge 1        -- s most negative: sphere around ac
        | 1 => edge 0        -- t most negative: sphere around ab
        | _ => edge 2        -- u most negative: sphere around bc
      else V3.add a (V3.add (V3.smul s ab) (V3.smul t ac))
  (ctr, sqrt (max3 (V3.normSq (V3.sub a ctr)) (V3.normSq (V3.sub b ctr)) (V3.normSq (V3.sub c ctr))))

/-! ## mesh adjacency tables -/
structure Topo where
  nV : Nat
  fv : Array (Nat × Nat × Nat)      -- face -> its three vertices
  fe : Array (Nat × Nat × Nat)      -- face -> its three edges (edge k joins vertices k and k+1)
  ev : Array (Nat × Nat)            -- edge -> its two vertices
  ef : Array (Nat × Nat)            -- edge -> its two faces

def tri (x : Nat × Nat × Nat) (k : Nat) : Nat := match k with | 0 => x.1 | 1 => x.2.1 | _ => x.2.2
def sameSet (a b : Nat × Nat) : Bool := (a.1 == b.1 && a.2 == b.2) || (a.1 == b.2 && a.2 == b.1)

/-- face `f`, slot `k`: the edge in that slot joins vertices `k`, `k+1` of the face, and lists `f` among its faces -/
def Topo.slotOk (T : Topo) (f k : Nat) : Bool :=
  let e := tri (T.fe.getD f (0, 0, 0)) k
  decide (e < T.ev.size) && decide (e < T.ef.size) &&
  sameSet (T.ev.getD e (0, 0)) (tri (T.fv.getD f (0, 0, 0)) k, tri (T.fv.getD f (0, 0, 0)) ((k + 1) % 3)) &&
  ((T.ef.getD e (0, 0)).1 == f || (T.ef.getD e (0, 0)).2 == f)

def Topo.faceOk (T : Topo) (f : Nat) : Bool :=
  let v := T.fv.getD f (0, 0, 0)
  decide (v.1 < T.nV) && decide (v.2.1 < T.nV) && decide (v.2.2 < T.nV) &&
  v.1 != v.2.1 && v.2.1 != v.2.2 && v.1 != v.2.2 &&
  T.slotOk f 0 && T.slotOk f 1 && T.slotOk f 2

/-- edge `e`: two distinct faces, each having `e` in one of its three slots -/
def Topo.edgeOk (T : Topo) (e : Nat) : Bool :=
  let fs := T.ef.getD e (0, 0)
  let has (f : Nat) : Bool := let x := T.fe.getD f (0, 0, 0); x.1 == e || x.2.1 == e || x.2.2 == e
  decide (fs.1 < T.fv.size) && decide (fs.2 < T.fv.size) && fs.1 != fs.2 && has fs.1 && has fs.2

def Topo.consistent (T : Topo) : Bool :=
  T.fe.size == T.fv.size && T.ef.size == T.ev.size &&
  (List.range T.fv.size).all T.faceOk && (List.range T.ev.size).all T.edgeOk &&
  -- Euler-type count of a closed manifold: every edge has two faces, every face three edges
  (2 * T.ev.size == 3 * T.fv.size)

end Msh
end Geom
