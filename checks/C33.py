"""C33 — parallel executors run every task exactly once, safely (DESIGN.md §5 C33)."""
SPEC = dict(
    prop="C33",
    proof_module="SimbodyProofs.C33",
    sources=["SimbodyModel/Proto.lean", "SimbodyModel/C33.lean", "SimbodyModel/C33_PE.lean", "SimbodyModel/C33_WQ.lean",
             "SimbodyProofs/C33_lemmas.lean", "SimbodyProofs/C33_PE_lemmas.lean", "SimbodyProofs/C33_WQ_lemmas.lean", "SimbodyProofs/C33_WQ_live.lean",
             "SimbodyProofs/C33.lean", "Drivers/C33.lean"],
    n=dict(quick=300, thorough=6000),
    rtol=0.0, atol=0.0,
    modes=["", "onecpu"],
    rule="real ParallelExecutor / Parallel2DExecutor / ParallelWorkQueue runs with instrumented user tasks: thread counts "
         "{1,2,3,4,8} plus a small 16-thread stream, task counts 0..2000 (1-3 execute() calls per executor), grid sizes 0..64, "
         "all three range types, both Parallel2DExecutor constructors, queue sizes 1..64 with add/flush programs; seeded "
         "yields/sleeps inside callbacks perturb schedules; mode 'onecpu' simulates a one-processor machine (sysconf "
         "interposed by the harness); distinct = distinct input records",
    partial="real thread schedules and the C++ memory model are runtime: the theorems cover every interleaving of the "
            "modelled atomic steps (sequentially consistent, spurious wake-ups anywhere); unlocked reads of finished / "
            "taskQueue.empty() in worker loop conditions (F9) are modelled as atomic reads; no_deadlock is proved for "
            "ParallelExecutor only (ParallelWorkQueue: not covered); the internal partition of Parallel2DExecutor is not "
            "observable publicly (hook patch in notes/C33_trace_hook.patch), only its consequences are compared",
    assumptions=["std::mutex / std::condition_variable have monitor semantics with spurious wake-ups (trusted base item 7)",
                 "one producer thread uses a ParallelWorkQueue (the documented usage)"],
)
