"""C33 — parallel executors run every task exactly once, safely (DESIGN.md §5 C33)."""
SPEC = dict(
    prop="C33",
    proof_module="SimbodyProofs.C33",
    sources=["SimbodyModel/Proto.lean", "SimbodyModel/C33.lean", "SimbodyModel/C33_PE.lean", "SimbodyModel/C33_WQ.lean",
             "SimbodyProofs/C33_lemmas.lean", "SimbodyProofs/C33_PE_lemmas.lean", "SimbodyProofs/C33_WQ_lemmas.lean", "SimbodyProofs/C33_WQ_live.lean",
             "SimbodyProofs/C33.lean", "Drivers/C33.lean"],
    n=dict(quick=300, thorough=3000),
    rtol=0.0, atol=0.0,
    modes=["", "onecpu"],
    rule="real ParallelExecutor / Parallel2DExecutor / ParallelWorkQueue runs with instrumented user tasks: thread counts "
         "{1,2,3,4,8}, 16 for all three executors in a guaranteed share, 32 for short ParallelExecutor runs; task counts 0..2000 "
         "(thorough: up to 10000), 1-3 execute() calls per ParallelExecutor (one per Parallel2DExecutor); grid sizes 0..64 and "
         "128, small grids 1..12 with sleeping callbacks; all three range types, both Parallel2DExecutor constructors, queue "
         "sizes 1..64 with add/flush programs; seeded yields/sleeps inside callbacks only; for ParallelExecutor cases with "
         "<= 400 tasks the callback-level trace (initialize / execute begin+end / finish begin+end / caller's call+return, "
         "atomic sequence order) is replayed by the Lean driver on the transition system without spurious wake-ups "
         "(records 'petrace'); for own-constructor Parallel2DExecutor cases the partition reported by the trace hook is compared "
         "with the model (records 'p2dplan'); mode 'onecpu' simulates a one-processor machine (sysconf interposed by the harness); a "
         "watchdog turns a hang (30 s) into P no_deadlock; distinct = distinct input records",
    partial="PROVED about the executed models for every thread count / task count / level / grid size and every schedule "
            "(spurious wake-ups anywhere): index partition, quadtree coverage and conflict freedom, exactly-once, "
            "init/finish order, finish mutual exclusion, return-after-all, no_deadlock (enabledness, no fairness statement) "
            "for ParallelExecutor AND ParallelWorkQueue. TIE of the protocol models to the C++: by reading, by the exact "
            "O-lines, and (ParallelExecutor only) by trace inclusion at CALLBACK granularity: every logged run must be a run of "
            "the transition system. Through the SIMBODY_VERIF hook (/repo 027115e8) the REAL Parallel2DExecutor partition "
            "(binStart[0..bins] and the squares of every pass, own constructor) is compared exactly with the model's plan the "
            "theorems are about (records 'p2dplan'); the hook's lock / wait / notify events are NOT consumed. No trace validation for ParallelWorkQueue and for the "
            "passes inside Parallel2DExecutor. Perturbation happens only inside user callbacks, not in the library's own "
            "windows (between unlock and isFinished(), between running=false and incrementWaitingThreads, between pop and "
            "notify). NOT BUILT: ThreadSanitizer tier / race detector, forced schedules. Real schedulers and the C++ memory "
            "model are runtime; the unlocked reads of finished / taskQueue.empty() in worker loop conditions (F9) are "
            "modelled as sequentially consistent atomic reads; Parallel2DExecutor conflict freedom of the REAL partition is "
            "proved for the model's partition, which the p2dplan records show to be the library's; at run time overlap is "
            "observed only through in-flight counters (sleeping callbacks for grids <= 12)",
    assumptions=["std::mutex / std::condition_variable have monitor semantics with spurious wake-ups (trusted base item 7)",
                 "one producer thread uses a ParallelWorkQueue (the documented usage)", "ParallelWorkQueue queueSize >= 1, >= 1 worker"],
)
