"""C17 — force totals are independent of threading and scheduling (DESIGN.md §5 C17)."""
SPEC = dict(
    prop="C17",
    proof_module="SimbodyProofs.C17",
    sources=["SimbodyModel/Proto.lean", "SimbodyModel/C33.lean", "SimbodyModel/C17.lean",
             "SimbodyProofs/C33_lemmas.lean", "SimbodyProofs/C17_lemmas.lean", "SimbodyProofs/C17.lean", "Drivers/C17.lean"],
    n=dict(quick=600, thorough=20000),
    rtol=0.0, atol=0.0,
    modes=["", "f7", "f7p", "ta"],
    rule="GeneralForceSubsystem with 1..10 Force::Custom elements (random shouldBeParallelIfPossible / "
         "dependsOnlyOnPositions / disabled-by-default flags, integer-valued increments to mobility and body force slots, "
         "optionally scaled by integer codes read from q[0] / u[0], ~10% deliberately slow forces), 1..4 bodies, thread "
         "counts 1..16 set before realizeTopology, after it, or changed between realizations, 3..6 realizations per system "
         "with enable/disable toggles in the State and position- or velocity-only changes in between (caching paths All / "
         "CachedAndNonCached / NonCached); one record per realization, compared with an independent serial sum over the "
         "enabled forces; streams: 'f7' (slow non-parallel force + 6 parallel + position-only, 8 threads), 'f7p' (slow "
         "parallel and slow parallel position-only forces on the same slots), 'ta' (setNumberOfThreads after "
         "realizeTopology, with and without parallel forces); seeded yields inside every calcForce; distinct = distinct "
         "input records",
    partial="PROVED about the executed model (the transition system the driver runs): race freedom of every schedule and "
            "total = serial sum over the enabled forces for every thread count, caching path, enabled mask and schedule, in "
            "every subsystem state reachable by any order of setNumberOfThreads / realizeTopology calls (threadSafe_reachable; "
            "the pre-fix transition that ran the non-parallel task on >= 2 workers is kept as a historical witness, key "
            "CalcForces.threads_after_topology.nonparallel_task stays as regression). PREDICATE-ONLY: which "
            "caching path the implementation really took is not observed (the harness steers it; q/u-dependent integer forces "
            "make a stale cache or a skipped evaluation visible in the total); absence of races on the real machine rests on "
            "slow-force streams with seeded yields, i.e. on OS interleavings. NOT BUILT (DESIGN promised them): hook traces "
            "validated as runs of the transition system, a forced witness schedule, ThreadSanitizer replays. NOT COVERED: "
            "accelerations derived from the totals, particle forces, several force subsystems / non-zero initial arrays; real "
            "schedules and the C++ memory model are runtime; the ParallelExecutor protocol itself is C33",
    assumptions=["ParallelExecutor runs initialize / the task indices of a worker / finish (finish under its mutex) as proved in C33"],
)
