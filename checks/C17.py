"""C17 — force totals are independent of threading and scheduling (DESIGN.md §5 C17)."""
SPEC = dict(
    prop="C17",
    proof_module="SimbodyProofs.C17",
    sources=["SimbodyModel/Proto.lean", "SimbodyModel/C33.lean", "SimbodyModel/C17.lean",
             "SimbodyProofs/C33_lemmas.lean", "SimbodyProofs/C17_lemmas.lean", "SimbodyProofs/C17.lean", "Drivers/C17.lean"],
    n=dict(quick=600, thorough=20000),
    rtol=0.0, atol=0.0,
    modes=["", "f7"],
    rule="GeneralForceSubsystem with 1..10 Force::Custom elements (random shouldBeParallelIfPossible / "
         "dependsOnlyOnPositions / enabled flags, integer-valued increments to mobility and body force slots so totals are "
         "exact), 1..4 bodies, thread counts 1..16, 3..6 realizations per system with position- or velocity-only "
         "invalidation in between (modes All / CachedAndNonCached / NonCached); one record per realization; mode 'f7' is "
         "the dedicated lost-update stream (slow non-parallel force + 6 parallel forces + a position-only force, 8 threads, "
         "30 realizations per caching mode); distinct = distinct input records",
    partial="real thread interleavings and the C++ memory model are runtime: the theorems cover every interleaving of the "
            "modelled atomic steps (each += on a shared array is a load and a store); 'same up to floating-point summation "
            "order' is proved as equality in an arbitrary commutative monoid and tested with integer-valued forces (exact); "
            "the ParallelExecutor protocol itself is C33",
    assumptions=["ParallelExecutor runs initialize / the task indices of a worker / finish (finish under its mutex) as proved in C33"],
)
