"""C29 — mass-property and spatial-algebra identities hold (DESIGN.md §5 C29)."""
SPEC = dict(
    prop="C29",
    proof_module="SimbodyProofs.C29",
    sources=["SimbodyModel/Proto.lean", "SimbodyModel/Spatial.lean", "SimbodyModel/C29.lean",
             "SimbodyProofs/Spatial.lean", "SimbodyProofs/C29.lean", "Drivers/C29.lean"],
    n=dict(quick=1500, thorough=60000),
    rtol=1e-9, atol=1e-12,
    rule="cases from VERIF_SEED by harness/C29.cpp: bodies are clouds of 3-6 point masses (always physically valid), "
         "plus the limits thin rod (collinear points), disc (coplanar points) and single point mass; random proper rotations, "
         "shift vectors 0.1..3, spatial vectors 0.1..5, transforms with and without translation; double and float (1/4); "
         "validity stream: negative moments, triangle-inequality violations by 1e-6..1 relative, product violations, "
         "rod / zero limits, NaN in each slot, a slop-boundary stream (each of the 6 inequalities violated by 0.1/0.5/2/10 x slop, "
         "trace < 1 and > 1, double and float) and a probe stream of matrices satisfying every coded condition; SpatialAlgebra.h shift / "
         "relative-velocity / PhiMatrix operators (double); distinct = distinct input records",
    partial="the clause 'every accepted inertia is positive semi-definite' is FALSE for the code (known finding "
            "isValidInertiaMatrix.accepted.psd, theorem accepted_not_psd); it is proved only for inertias built from "
            "nonnegative point masses (cloud_accepted_and_psd).  Rejection is proved for the coded necessary conditions only "
            "(negative moment, triangle inequality, product bound, each beyond the slop): a matrix that is invalid only because "
            "it is not PSD is accepted.  NaN rejection and float validity are predicate-only; MassProperties with mass == 0 and "
            "Inertia_(Mat33) are not covered; in this release build no constructor checks anything (errChk compiled out)",
    assumptions=[
        "release build (NDEBUG): Inertia_::errChk and SimTK_ERRCHK are compiled out, so constructors reject nothing; "
        "the rejection clause is checked on the public static Inertia_::isValidInertiaMatrix only",
        "isValidInertiaMatrix's NaN test is not modelled (the model's scalars have no NaN)",
        "MassProperties_ with mass == 0 (special branch of setMassProperties) is not modelled",
    ],
)
