"""C21 — integrators keep constrained states on the manifold (DESIGN.md §5 C21)."""
SPEC = dict(
    prop="C21",
    proof_module="SimbodyProofs.C21",
    sources=["SimbodyModel/Proto.lean", "SimbodyModel/C21.lean", "SimbodyProofs/C21.lean", "Drivers/C21.lean"],
    n=dict(quick=150, thorough=2000),
    rtol=0.0, atol=0.0,
    modes=["", "oracle"],
    flow="harness_first",
    rule="mode '': one record per state returned by Integrator::stepTo (step states, interpolated report states, event before-states, "
         "StartOfContinuousInterval state) on random constrained multibody models: chains of 1-3 Pin/Ball/Free mobilizers (Ball/Free use "
         "quaternions) closed by Rod and/or PointInPlane constraints, optional ConstantSpeed constraint, prescribed Motion::Sinusoid at "
         "Position or Velocity level (guaranteed share), all 10 integrators, random accuracy 1e-2..1e-5, constraint tolerance, "
         "RMS/infinity norm, project-every-step, interpolation on/off, projection of interpolated states on/off, return-every-step, "
         "final time, scheduled times, fixed step size (own key class), time witnesses, force-full-Newton; GUARANTEED 1/3 of the sessions: "
         "setProjectInterpolatedStates(false) + 2-4 witness events + loose accuracy (1e-2..6e-4) + tight constraint tolerance (1e-6..3e-9) "
         "+ random project-every-step / infinity norm / full Newton; the advanced state at tHigh is recorded at every ReachedEventTrigger "
         "return (kind event_after); rule: step, event-before and event-after states must ALWAYS be on the manifold, only interpolated "
         "REPORT states are exempt when projection of interpolated states is off; GUARANTEED another 1/3 (5 per integrator per 150): "
         "setUseInfinityNorm(true) x >= 4 velocity-level constraint equations with uneven errors (chain of 2-3 Ball/Free joints, tip "
         "pinned by a Ball constraint, PointInPlane on an inner body, Rod on the tip half of the time), keys <Integrator>.infnorm.<kind>.*; "
         "all norms are evaluated in the norm in use (max |w_i err_i| <= tol under the infinity norm, separately for perr / quaternions / verr); "
         "mode 'oracle': one record per stepTo call of RungeKuttaMerson/Feldberg/3/2 (the integrators using the default attemptDAEStep) "
         "on a harness-defined constrained System whose projectQImpl/projectUImpl log every call and fail on demand (half of the sessions with "
         "projection of interpolated states off and 2-3 witness events); predicted: provenance of the handed-out AND of the advanced state; "
         "distinct = distinct records",
    partial="(i) proved about the EXECUTED decision structure (attemptDAECore/stepLoop/handOut/callProv/sessionProv, replayed against the "
            "implementation in mode 'oracle' for the 4 integrators with the default attemptDAEStep): every state handed out by an "
            "error-controlled integrator without a forcing minimum step size is the output of successful projections (or prescribed-only "
            "when projection of interpolated states is off), convergence-failure counts, which projections are called, when stepTo throws; "
            "(ii) predicate/contract only: that a successful projection really meets the tolerance (project is an oracle, C09) - checked on "
            "every returned state of all 10 integrators by the exact acceptance contract + P lines; prescribed motion (P line; no "
            "`prescribed_reapplied` theorem exists: prescribeQ/prescribeU are not modelled); Verlet / ExplicitEuler / SemiExplicitEuler(2) "
            "override attemptDAEStep and CPodes uses CPODES' projection callback: their decision structure is NOT modelled; "
            "(iii) not covered: constraint types other than Rod / PointInPlane / ConstantSpeed, acceleration-level Motion, state-changing "
            "event handlers (the states they leave are the handler's responsibility), the link `step accepted <=> error norm <= accuracy` "
            "is C20's adjust_success_iff_err_le_acc (not imported)",
    assumptions=[
        "projectQ / projectU are oracles that either succeed at the tolerance in use or fail (C09)",
        "interpolated states handed out with setProjectInterpolatedStates(false) are exempt (the property says so)",
        "constraint error norms are those SimbodyMatterSubsystemRep::projectQ/U test: QErrWeights-weighted holonomic errors, unweighted quaternion errors, UErrWeights-weighted velocity errors",
        "oracle mode: trial steps that were gated (error estimate > 2^p accuracy, no projection call) are invisible in the call trace; the driver treats the last visible trial step as the accepted one when no minimum step size forces acceptance (anything else is reported as a mismatch)",
    ],
)
