"""C21 — integrators keep constrained states on the manifold (DESIGN.md §5 C21)."""
SPEC = dict(
    prop="C21",
    proof_module="SimbodyProofs.C21",
    sources=["SimbodyModel/Proto.lean", "SimbodyModel/C21.lean", "SimbodyProofs/C21.lean", "Drivers/C21.lean"],
    n=dict(quick=150, thorough=3000),
    rtol=0.0, atol=0.0,
    modes=[""],
    flow="harness_first",
    rule="one record per state returned by Integrator::stepTo (step states, interpolated report states, event before-states) "
         "on random constrained multibody models: chains of 1-3 Pin/Ball/Free mobilizers (Ball/Free use quaternions) closed by "
         "Rod and/or PointInPlane constraints, optional ConstantSpeed constraint or prescribed Motion::Sinusoid, all 10 "
         "integrators, random accuracy 1e-2..1e-5, constraint tolerance, RMS/infinity norm, project-every-step, interpolation "
         "on/off, projection of interpolated states on/off, return-every-step, fixed step size (separate key class), time "
         "witnesses; distinct = distinct records",
    partial="numerically partial as C09: `project` is an oracle in the decision-structure model and the returned states are "
            "checked by the exact acceptance contract (weighted RMS / infinity norms <= tolerance, 1e-9 relative slack) and the "
            "P lines; the overridden attemptDAEStep of Verlet / the Euler variants and CPodes' projection callback are covered by "
            "the contract and P lines only; the link `step accepted <=> error norm <= accuracy` is C20's adjust_success_iff_err_le_acc",
    assumptions=[
        "projectQ / projectU are oracles that either succeed at the tolerance in use or fail (C09)",
        "interpolated states handed out with setProjectInterpolatedStates(false) are exempt (the property says so)",
        "constraint error norms are those SimbodyMatterSubsystemRep::projectQ/U test: QErrWeights-weighted holonomic errors, unweighted quaternion errors, UErrWeights-weighted velocity errors",
    ],
)
