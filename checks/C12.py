"""C12 — force elements' power matches their potential energy (DESIGN.md §5 C12)."""
SPEC = dict(
    prop="C12",
    proof_module="SimbodyProofs.C12",
    harness="ForceLaws",
    sources=["SimbodyModel/Proto.lean", "SimbodyModel/ForceLaws.lean", "SimbodyModel/ForceLawsDriver.lean",
             "SimbodyProofs/ForceLaws_lemmas.lean", "SimbodyProofs/ForceLaws_nonvacuity.lean", "SimbodyProofs/C37.lean",
             "SimbodyProofs/C12.lean", "Drivers/C12.lean"],
    lake_targets=["SimbodyProofs.ForceLaws_lemmas", "SimbodyProofs.ForceLaws_nonvacuity", "SimbodyProofs.C37"],
    n=dict(quick=560, thorough=14000),
    modes=["c12", "c12contact"],
    rtol=1e-9, atol=1e-12,
    rule="mode c12: the 15 non-contact element kinds in turn (TwoPoint*, Constant*, Mobility*, GlobalDamper, UniformGravity, Gravity, "
         "LinearBushing, CableSpring on a straight path) on random trees of 1-4 bodies with random parameters and q,u; "
         "mode c12contact: HuntCrossleyForce scenes with 1-4 spheres (multi-contact) and single sphere, ElasticFoundationForce mesh "
         "scenes, frictionless ExponentialSpringForce (= its normal part; record expnPE with the reported PE), Hertz contacts of "
         "CompliantContactSubsystem (1-4 contacts), CableSpring, mesh and brick contacts of CompliantContactSubsystem (predicates only). "
         "Forces and PE are compared with the model; the P lines compare the delivered power with the Richardson-extrapolated central "
         "difference (steps h and h/2, h=1e-6) of the reported PE along q +- h*qdot (tolerance 1e-6*scale + the measured O(h^2) "
         "truncation term |D(h)-D(h/2)|; rounding eps/h ~1e-10 relative; a wrong factor gives O(1)); for MobilityLinearStop, HuntCrossley and ElasticFoundation the *value* of the dissipation term is a record of "
         "its own (dissStop/dissHC/dissEF: model = power + jet derivative of the coded PE, implementation = power + finite "
         "difference; compared with atol 2e-6*power scale, so max_rel_diff_seen of these records is not meaningful); "
         "distinct = distinct input records",
    partial="(i) proved about the executed model definitions AND checked on the implementation: TwoPointLinearSpring, "
            "MobilityLinearSpring, MobilityLinearStop, UniformGravity, Gravity, LinearBushing (rate along the coded qdot), HuntCrossley "
            "(one contact; the list is additive by C37 hc_sum_over_contacts), ElasticFoundationForce (one spring), ExponentialSpring "
            "normal part with the cap maxNormalForce inactive (exp_normal_power_eq about expNormal/expPE), CableSpring tension law "
            "(cable_power_eq; that the path delivers -tension*Ldot is CablePath's property, here a P line), Hertz generator in the frame "
            "of surface 1 (hertz_power_eq); dampers and constant elements: pe_is_zero (+ power <= 0 for dampers). "
            "(ii) predicate only: that LinearBushing's coded qdot = N*w is the derivative of its Euler angles (C28/C05), the transfer of "
            "the Hertz statement from the surface-1 frame to the body forces, mesh (elastic foundation) and brick generators of "
            "CompliantContactSubsystem, CablePath's force application, contact geometry rates (penetration rate = approach speed is an "
            "assumption of the contact theorems; for ElasticFoundation the nearest point moves and only the finite difference sees it). "
            "(iii) not covered: Force::Thermostat, Force::Custom, cables with obstacles, HertzElliptical, ExponentialSpring with friction. "
            "Shown finding: with the cap active ExponentialSpringForce reports PE=(max-fzDamp)/d2 and the dissipation term is positive "
            "(keys ExponentialSpringForce.capped.diss_le_0 / .diss_eq_0; the source carries a TODO for it)",
    assumptions=["jets: d/dt is the formal derivative with Rdot=[w]xR, pdot=v, qdot=u for the mobility elements (their documented domain), "
                 "sqrt and exp lifted by their Taylor coefficients (DESIGN.md §3 item 6)",
                 "contact theorems are stated at fixed contact geometry: d(depth)/dt = approach speed along the normal (exact for "
                 "sphere/half-space, sphere/sphere to first order); the motion of the contact point over the surfaces is C35",
                 "libm sqrt/exp are trusted (function parameters of the model; SqrtSpec is inhabited by Real.sqrt: ForceLaws_nonvacuity.lean)"],
)
