"""C12 — force elements' power matches their potential energy (DESIGN.md §5 C12)."""
SPEC = dict(
    prop="C12",
    proof_module="SimbodyProofs.C12",
    harness="ForceLaws",
    sources=["SimbodyModel/Proto.lean", "SimbodyModel/ForceLaws.lean", "SimbodyModel/ForceLawsDriver.lean",
             "SimbodyProofs/ForceLaws_lemmas.lean", "SimbodyProofs/C37.lean", "SimbodyProofs/C12.lean", "Drivers/C12.lean"],
    lake_targets=["SimbodyProofs.ForceLaws_lemmas", "SimbodyProofs.C37"],
    n=dict(quick=560, thorough=14000),
    modes=["c12", "c12contact"],
    rtol=1e-9, atol=1e-12,
    rule="mode c12: the 14 non-contact element kinds in turn (random trees of 1-4 bodies, random parameters and q,u); forces and PE "
         "are compared with the model and the implementation-side predicates compare the delivered power with the central "
         "difference (h=1e-6) of calcPotentialEnergyContribution along q +- h*qdot (tolerance 1e-6*scale: truncation O(h^2), "
         "rounding eps/h ~1e-10 relative; a wrong factor gives O(1)); mode c12contact: HuntCrossleyForce scenes with 1-4 spheres "
         "and ElasticFoundationForce mesh scenes; distinct = distinct input records",
    partial="LinearBushing: power = sum f_i*qdot_i (virtual work) and the documented rates are proved; that the coded qdot = N*w is the "
            "time derivative of the inferred Euler angles is the kinematic fact of C28/C05 and is only checked numerically here "
            "(finite difference P line); contact elements are proved at fixed contact geometry (penetration rate = approach speed, "
            "DESIGN C12) and for HuntCrossley/ElasticFoundation/ExponentialSpring-normal only; Hertz generators of "
            "CompliantContactSubsystem, brick and mesh generators, CableSpring and Thermostat are not covered by a power theorem; "
            "the contact P lines use the finite difference of the reported PE, which is meaningful only while the contact set is "
            "unchanged within +-h (guaranteed by the generator's depths >> h*speed)",
    assumptions=["jets: d/dt is the formal derivative with Rdot=[w]xR, pdot=v, qdot=u for the mobility elements (their documented domain), "
                 "sqrt lifted by its Taylor coefficient (DESIGN.md §3 item 6)",
                 "libm sqrt/exp are trusted (function parameters of the model)"],
)
