"""C40 — numerical differentiation meets its error bounds (DESIGN.md §5 C40)."""
SPEC = dict(
    prop="C40",
    proof_module="SimbodyProofs.C40",
    sources=["SimbodyModel/Proto.lean", "SimbodyModel/C40.lean", "SimbodyProofs/C40.lean", "Drivers/C40.lean"],
    n=dict(quick=400, thorough=40000),
    rtol=1e-9, atol=1e-12,
    rule="random scalar / gradient / Jacobian user functions (affine, quadratic, cubic with cross terms incl. small-integer "
         "coefficients; sums of sinusoids; exponentials of linear forms) in 1..20 parameters and 1..10 outputs, evaluation points "
         "incl. 0, |y|<0.1, 1e2..1e4, default and user-specified accuracy (1e-10,1e-6,1e-3), forward/central/unspecified method x "
         "default method, method argument passed or omitted, fast (fy0 supplied) and slow overloads, every valid entry-point x "
         "function-shape route; default CentralDifference with the method omitted is generated for every shape x route at least "
         "twice per run; coverage floor P-lines; one record per differentiated column; distinct = distinct input records",
    partial="(i) proved about the executed model (tie: step and quotient bit-exact on the logged function values): step selection "
            "never zero and scaled by max(|y0|,0.1); forward exact on affine, central exact on quadratic with the selected step incl. "
            "y0=0; error terms exact on quadratics/quartics; forward/central within M h/2 + 2 delta/h resp. M h^2/6 + delta/h, and "
            "with the selected step and delta = acc*F within (M s/2+2F/s) sqrt(acc) resp. (M s^2/6+F/s) acc^(2/3) "
            "(forward_total_error, central_total_error); gradient/Jacobian entries are the scalar rule on the coordinate "
            "restriction; method defaulting; entry-point shape rule. "
            "(ii) predicate-only: floating-point rounding (the rounding term is the hypothesis delta in the theorems and a measured "
            "16*eps*sum|terms|/h allowance in derivative_error); cleanUpH's purpose (y0+h exactly representable) is observed "
            "(step_nonzero, step_symmetric) but not proved; the Taylor hypotheses are discharged per test function by analytic bounds "
            "M2/M3 computed in the harness. "
            "(iii) not covered: user functions that fail (non-zero return), Differentiator statistics other than the call count, "
            "non-smooth functions, accuracy settings below the true rounding of f; replay re-runs only the scalar route",
    assumptions=["libm sqrt/pow (AccFac1 = sqrt(acc), AccFac2 = pow(acc,1/3)) trusted",
                 "the user function's values are taken from the harness log (the model is parametric in f)"],
)
