"""C40 — numerical differentiation meets its error bounds (DESIGN.md §5 C40)."""
SPEC = dict(
    prop="C40",
    proof_module="SimbodyProofs.C40",
    sources=["SimbodyModel/Proto.lean", "SimbodyModel/C40.lean", "SimbodyProofs/C40.lean", "Drivers/C40.lean"],
    n=dict(quick=400, thorough=40000),
    rtol=1e-9, atol=1e-12,
    rule="random scalar / gradient / Jacobian user functions (affine, quadratic, cubic with cross terms incl. small-integer "
         "coefficients; sums of sinusoids; exponentials of linear forms) in 1..20 parameters and 1..10 outputs, evaluation points "
         "incl. 0, |y|<0.1, 1e2..1e4, default and user-specified accuracy (1e-10,1e-6,1e-3), forward/central/unspecified method x "
         "default method, fast (fy0 supplied) and slow overloads, every valid entry-point x function-shape route; one record per "
         "differentiated column; distinct = distinct input records",
    partial="floating-point rounding is not modelled: the rounding term of the bound is an explicit hypothesis (delta) in "
            "forward_error_bound/central_error_bound and a measured 16*eps*sum|terms|/h allowance in the harness predicate; "
            "cleanUpH's exact-representability purpose (y0+h exactly representable) is observed (P step_nonzero) but not proved",
    assumptions=["libm sqrt/pow (AccFac1 = sqrt(acc), AccFac2 = pow(acc,1/3)) trusted",
                 "the user function's values are taken from the harness log (the model is parametric in f)"],
)
