"""C06 — physics is independent of the chosen representation (DESIGN.md §5 C06)."""
SPEC = dict(
    prop="C06",
    proof_module="SimbodyProofs.C06",
    sources=["SimbodyModel/Proto.lean", "SimbodyModel/Mobilizer.lean", "SimbodyModel/MobilizerIO.lean",
             "SimbodyProofs/MobilizerLemmas.lean", "SimbodyProofs/C06.lean", "Drivers/C06.lean"],
    n=dict(quick=600, thorough=20000),
    rtol=1e-9, atol=1e-12,
    rule="random trees (1-5 bodies quick, 1-10 thorough; chain/star/random branching; all 18 built-in types, random frames "
         "and directions, quaternion mode, gravity) from VERIF_SEED; per tree four variant models are built (Euler-converted "
         "state, reversed twin, FunctionBased mirrors, rigidly relocated) and compared pairwise; distinct = distinct trees",
    partial="accelerations (dynamics) are compared between pairs of C++ models only (the Lean model is kinematic); the "
            "atan2/sqrt based conversions convertRotationToBodyFixedXYZ / convertRotationToQuaternion are C27's; "
            "MobilizedBody::Custom is exercised through FunctionBased (a Custom::Implementation) only",
    assumptions=["libm trusted; angles are trig pairs; the relocation theorems are per tree step (iteration from Ground gives the whole model)",
                 "representable inverses for the reversed twin are found with the library's own setQToFitTransform/setUToFitVelocity (types whose fit is exact, see C05)"],
)
