"""C06 — physics is independent of the chosen representation (DESIGN.md §5 C06)."""
SPEC = dict(
    prop="C06",
    proof_module="SimbodyProofs.C06",
    sources=["SimbodyModel/Proto.lean", "SimbodyModel/Mobilizer.lean", "SimbodyModel/MobilizerIO.lean",
             "SimbodyProofs/MobilizerLemmas.lean", "SimbodyProofs/C06.lean", "Drivers/C06.lean"],
    n=dict(quick=600, thorough=20000),
    rtol=1e-9, atol=1e-12,
    rule="random trees (1-5 bodies quick, 1-10 thorough; all 18 built-in types, random frames/directions, quaternion mode, "
         "gravity) with four variant models each (Euler-converted state, reversed twin, FunctionBased mirrors, relocated), plus "
         "n/3 Euler->quaternion conversions of Ball/Free/Ellipsoid/LineOrientation/FreeLine at arbitrary angles, n/3 FunctionBased "
         "mirrors of single mobilizers (8 types x both directions), n/6 multi-argument FunctionBased families (mixed second partials; "
         "fbm.* tags, Coriolis and acceleration level), n/3 re-rooted forward/reversed twins (17 types x both "
         "options) from VERIF_SEED; distinct = distinct records",
    partial="This property is established mainly by PAIRWISE COMPARISON OF C++ MODELS (P-lines): conversion, reversed twin, "
            "re-rooted twin, FunctionBased mirror and relocation preserve body poses, velocities and accelerations.  "
            "(i) proved about executed definitions and tied by O-lines: eulerQuat = what convertToQuaternions returns (up to "
            "sign) and euler_quat_same_R; Spec.fbX0 = getMobilizerTransform of the FunctionBased mirror and fbX0_eq_X0; body "
            "poses/velocities of the Euler-converted state vs the model of the quaternion record.  The relocation lemmas and "
            "reverse_equiv_* are one-step algebraic facts about the executed tree-step functions (X_GB, H_PB_G_col, V_GB, "
            "reverseSpatialVelocity), not whole-model theorems.  (ii) predicate only: all accelerations/dynamics, reversed and "
            "re-rooted equivalence, relocation of whole models, velocities of FunctionBased mirrors in trees.  (iii) not "
            "covered: reaction forces, hand-written MobilizedBody::Custom (only FunctionBased with Linear/Constant functions; "
            "C04 covers other functions), unnormalised quaternions under conversion",
    assumptions=["libm trusted; angles are trig pairs; the relocation theorems are per tree step (iteration from Ground gives the whole model)",
                 "representable inverses for the reversed twin are found with the library's own setQToFitTransform/setUToFitVelocity (types whose fit is exact, see C05)"],
)
