"""C22 — events are detected, localised and handled in time order (DESIGN.md §5 C22)."""
import os, re, subprocess
from tools import vlib


def gen(ctx):
    """translator: regenerate lean/SimbodyModel/Gen/EventTables.lean from the CURRENT tree:
    * truth tables of the header-inline classification functions, printed by a tiny program compiled against the headers;
    * the numeric literals of estimateRootTime (buffer-zone fraction) and takeOneStep (0.95 / 1.001) by regex on the source."""
    exe = vlib.build_harness("C22_tables")
    rc, out, err = vlib.sh([exe], timeout=60)
    rows = [l.split() for l in out.split("\n") if l.strip()]
    cls = [(int(r[1]), int(r[2]), int(r[3])) for r in rows if r[0] == "classify"]
    msk = [(int(r[1]), int(r[2]), int(r[3])) for r in rows if r[0] == "mask"]
    flg = [(r[1] == "1", r[2] == "1", int(r[3])) for r in rows if r[0] == "flags"]
    rep = [(int(r[1]), int(r[2])) for r in rows if r[0] == "report"]
    enum = next(([int(x) for x in r[1:]] for r in rows if r[0] == "enum"), [])
    dfl = next((r[1:] for r in rows if r[0] == "defaults"), ["0", "0", "0"])
    irep = open(os.path.join(vlib.REPO, "SimTKmath/Integrators/src/IntegratorRep.h")).read()
    air = open(os.path.join(vlib.REPO, "SimTKmath/Integrators/src/AbstractIntegratorRep.cpp")).read()
    lits, src = {}, {}
    def grab(name, text, pat):
        m = re.search(pat, text)
        if m:
            lits[name] = m.group(1); src[name] = " ".join(m.group(0).split())
        else:
            lits[name] = None; src[name] = "PATTERN NOT FOUND"
    grab("bufferFraction", irep, r"BufferZone\s*=\s*std::max\(\s*Real\(\s*([0-9.]+)\s*\*\s*h\s*\)\s*,\s*minWindow\s*/\s*2\s*\)")
    grab("c095", air, r"tMax\s*<\s*t0\s*\+\s*([0-9.]+)\s*\*\s*currentStepSize")
    grab("c1001", air, r"tMax\s*>\s*t0\s*\+\s*([0-9.]+)\s*\*\s*currentStepSize")
    def rat(s):
        if s is None:
            return "(0, 1)"        # makes the side-condition theorems fail -> reported as a broken obligation
        if "." in s:
            ip, fp = s.split(".")
            return "(%d, %d)" % (int(ip + fp), 10 ** len(fp))
        return "(%d, 1)" % int(s)
    def flt(s):
        return "%s" % (s if s is not None else "0.0")
    b = lambda x: "true" if x else "false"
    L = []
    L.append("/-! GENERATED on every run by checks/C22.py (gen) from the current /repo working tree — do not edit.")
    L.append("Truth tables: output of harness/C22_tables.cpp compiled against the tree's headers.")
    for k in ("bufferFraction", "c095", "c1001"):
        L.append("literal %s: `%s`" % (k, src[k].replace("/-", "/ -").replace("-/", "- /")))
    L.append("-/")
    L.append("namespace C22.Gen")
    L.append("/-- (before, after, Event::classifyTransition(before, after)) -/")
    L.append("def classifyTable : List (Int × Int × Nat) := [" + ", ".join("(%d, %d, %d)" % r for r in cls) + "]")
    L.append("/-- (transition, mask, Event::maskTransition(transition, mask)) -/")
    L.append("def maskTable : List (Nat × Nat × Nat) := [" + ", ".join("(%d, %d, %d)" % r for r in msk) + "]")
    L.append("/-- (rising, falling, EventTriggerInfo::calcTransitionMask()) -/")
    L.append("def flagsTable : List (Bool × Bool × Nat) := [" + ", ".join("(%s, %s, %d)" % (b(r[0]), b(r[1]), r[2]) for r in flg) + "]")
    L.append("/-- (transitionSeen, EventTriggerInfo::calcTransitionToReport(transitionSeen)) -/")
    L.append("def reportTable : List (Nat × Nat) := [" + ", ".join("(%d, %d)" % r for r in rep) + "]")
    L.append("/-- enum Event::Trigger: NoEventTrigger, PositiveToNegative, NegativeToPositive, Falling, Rising, AnySignChange -/")
    L.append("def triggerEnum : List Nat := [" + ", ".join(str(x) for x in enum) + "]")
    L.append("/-- EventTriggerInfo defaults: rising, falling -/")
    L.append("def defaultFlags : Bool × Bool := (%s, %s)" % (b(dfl[0] == "1"), b(dfl[1] == "1")))
    for k in ("bufferFraction", "c095", "c1001"):
        L.append("/-- numerator / denominator of the source literal -/")
        L.append("def %s : Nat × Nat := %s" % (k, rat(lits[k])))
        L.append("def %sF : Float := %s" % (k, flt(lits[k])))
    L.append("end C22.Gen")
    path = os.path.join(vlib.LEAN, "SimbodyModel", "Gen", "EventTables.lean")
    txt = "\n".join(L) + "\n"
    if not os.path.exists(path) or open(path).read() != txt:
        open(path, "w").write(txt)
    return dict(file="SimbodyModel/Gen/EventTables.lean", rows=len(cls) + len(msk) + len(flg) + len(rep), literals=lits)


SPEC = dict(
    prop="C22",
    proof_module="SimbodyProofs.C22",
    sources=["SimbodyModel/Proto.lean", "SimbodyModel/C22.lean", "SimbodyModel/Gen/EventTables.lean",
             "SimbodyProofs/C22.lean", "Drivers/C22.lean"],
    gen=gen,
    n=dict(quick=150, thorough=5000),
    rtol=1e-12, atol=0.0,
    modes=["", "e2e", "ts"],
    flow="harness_first",
    rule="mode '' (loc): every internal step of fixed-step return-every-step runs of the 8 AbstractIntegratorRep integrators with 1-3 "
         "time-only witness functions (t-a, sin(at+b), (t-a)(t-b); rising/falling/both; simultaneous; zero at start; DISTINCT per-trigger localisation windows in every multi-witness session; report time "
         "inside / at the end of the step; scheduled time before / near / after the step end) is one record, localisation "
         "recomputed by the model; mode 'e2e': variable-step runs of all 10 integrators with analytic crossing times plus (half of the sessions) a STATE-dependent witness q - c, one record "
         "per reported event window + one per session; mode 'ts': TimeStepper sessions with triggered / scheduled-list / "
         "periodic handlers and a periodic reporter, reportAllSignificantStates on (2/3) or the DEFAULT mode driven by repeated stepTo(t+dt) with small dt (1/3), handlers changing u and/or q, terminating handler (1/4), plus a directed scenario (1/25) with a scheduled report inside the event window; distinct = distinct records",
    partial="(i) proved about the executed model (the loc tie runs the same definitions bit-exactly against takeOneStep): soundness AND "
            "non-emptiness of the reported trigger list (localize_spec, localize_reports_nonempty, findEventCandidates_complete, "
            "locIter_nonempty), window inside the step, width <= narrowestWindow ON EXIT, report time not inside, order of the listed "
            "events, estimate strictly inside; NOT proved: termination of the localisation loop (the model has fuel; no fuel bound "
            "theorem) and that the EARLIEST crossing of the step is the one kept ('without skipping' is predicate-only: e2e.missed, "
            "e2e.state_witness); (ii) predicate-only: everything about TimeStepper (order, exact scheduled/periodic times, triggered "
            "handler time, restart state, termination) - tsDispatch is a definitional table that omits the conditions of the real switch; "
            "CPODES' own root finder (acceptance predicate + P lines, no width bound); state-dependent witnesses (q - c) are exercised in "
            "e2e mode only (the loc replay needs trigger values the driver can evaluate = time-only); (iii) not covered: handlers that "
            "change z or discrete state, TriggeredEventReporter, acceleration-stage witnesses",
    assumptions=[
        "trigger function values at probe times are an oracle `eval`; the theorems hold for every oracle",
        "`Infinity` is any value >= t1 and >= t1-t0 (hypotheses hinf, hinf2 of localize_spec)",
        "loc records use time-only witnesses so that the driver can evaluate them (same libm sin); state-dependent witnesses are exercised by C19",
        "e2e: maximum step size < 0.3 x the smallest gap between sign changes of any witness, so no crossing can come and go within one step",
    ],
)
