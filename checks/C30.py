"""C30 — polynomial roots are roots (DESIGN.md §5 C30)."""
SPEC = dict(
    prop="C30",
    proof_module="SimbodyProofs.C30",
    sources=["SimbodyModel/Proto.lean", "SimbodyModel/C30.lean", "SimbodyProofs/C30.lean", "Drivers/C30.lean"],
    n=dict(quick=3000, thorough=300000),
    rtol=1e-9, atol=1e-12,
    rule="random quadratics (generic / b=0 / exact double root / small integers / float / complex coefficients) "
         "and degree 3..20 polynomials from VERIF_SEED; distinct = distinct coefficient records",
    partial="degree >= 3 (vendored Jenkins-Traub rpoly/cpoly) is decided by the exact-rational acceptance contract "
            "and the implementation-side predicates only; the algorithm itself is not modelled",
    assumptions=["libm sqrt and std::complex sqrt/division are trusted (model takes sqrt as a parameter with its algebraic specification)"],
)
