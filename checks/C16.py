"""C16 — realization results depend only on current state values (DESIGN.md §5 C16).

kind D (exact) model of the force-realization caches + translator: SPEC['gen'] regenerates
lean/SimbodyModel/Gen/ForceParams.lean from /repo/Simbody/src on every run (one row per subclass of ForceImpl:
dependsOnlyOnPositions(), Stage of every allocate…DiscreteVariable / allocate…CacheEntry in realizeTopology);
`C16.table_ok : TableOK Gen.table = true := by decide` is the obligation on the code."""
import glob, os, re

REPO = os.environ.get("VERIF_REPO", "/repo")
LEAN = os.path.join(os.path.dirname(os.path.dirname(os.path.abspath(__file__))), "lean")
STAGES = ["Empty", "Topology", "Model", "Instance", "Time", "Position", "Velocity", "Dynamics", "Acceleration",
          "Report", "Infinity"]
SN = {n: i for i, n in enumerate(STAGES)}


def strip_comments(src):
    """blank out // and /* */ comments and string literals, keeping every offset (and newlines)"""
    out = list(src); i = 0; n = len(src)
    while i < n:
        c = src[i]
        if src.startswith("//", i):
            j = src.find("\n", i); j = n if j < 0 else j
            for k in range(i, j): out[k] = " "
            i = j
        elif src.startswith("/*", i):
            j = src.find("*/", i + 2); j = n if j < 0 else j + 2
            for k in range(i, j):
                if out[k] != "\n": out[k] = " "
            i = j
        elif c == '"':
            j = i + 1
            while j < n and src[j] != '"':
                j += 2 if src[j] == "\\" else 1
            for k in range(i + 1, min(j, n)):
                if out[k] != "\n": out[k] = " "
            i = j + 1
        elif c == "'":
            j = i + 1
            while j < n and src[j] != "'":
                j += 2 if src[j] == "\\" else 1
            i = j + 1
        else:
            i += 1
    return "".join(out)


def body_at(txt, open_brace):
    """text between the brace at open_brace and its match"""
    depth, i = 1, open_brace + 1
    while i < len(txt) and depth:
        depth += {"{": 1, "}": -1}.get(txt[i], 0); i += 1
    return txt[open_brace + 1:i - 1], i


def gen_force_params(ctx=None, repo=REPO, lean=LEAN):
    srcdir = os.path.join(repo, "Simbody", "src")
    files = sorted(glob.glob(os.path.join(srcdir, "*.h")) + glob.glob(os.path.join(srcdir, "*.cpp")))
    texts = {f: strip_comments(open(f, errors="replace").read()) for f in files}
    problems, classes = [], []
    for f in files:
        t = texts[f]
        for m in re.finditer(r"\bclass\s+((?:\w+::)*\w+)\s*:\s*public\s+ForceImpl\s*\{", t):
            name = m.group(1)
            body, _ = body_at(t, m.end() - 1)
            line = t.count("\n", 0, m.start()) + 1
            rel = os.path.relpath(f, repo)
            d = re.search(r"dependsOnlyOnPositions\s*\(\s*\)\s*const\s*(?:override\s*)?\{\s*return\s+([^;]+?)\s*;", body)
            if d is None:
                if "dependsOnlyOnPositions" in body:
                    problems.append("%s: dependsOnlyOnPositions present but not understood" % name)
                pos, posline, posnote = "some false", 0, "inherited default"      # ForceImpl's default
            else:
                v = d.group(1)
                posline = line + body.count("\n", 0, d.start())
                pos = {"true": "some true", "false": "some false"}.get(v, "none")
                posnote = "return %s" % v
            rt, rtwhere = None, ""
            r = re.search(r"\brealizeTopology\s*\(\s*State\s*&\s*\w*\s*\)\s*const\s*(?:override\s*)?(\{|;)", body)
            if r and r.group(1) == "{":
                rt, _ = body_at(body, r.end() - 1)
                rtwhere = "%s:%d" % (rel, line + body.count("\n", 0, r.start()))
            elif r:
                short = name.split("::")[-1]
                pat = r"\b(?:\w+\s*::\s*)*%s\s*::\s*realizeTopology\s*\(\s*State\s*&\s*\w*\s*\)\s*const\s*\{" % re.escape(short)
                tail = name.split("::", 1)[-1] if name.startswith("Force::") else name
                hits = [(g, mm) for g in files for mm in re.finditer(pat, texts[g])
                        if re.sub(r"\s+", "", mm.group(0)).split("::realizeTopology")[0].endswith(tail)]
                if len(hits) == 1:
                    g, mm = hits[0]
                    rt, _ = body_at(texts[g], mm.end() - 1)
                    rtwhere = "%s:%d" % (os.path.relpath(g, repo), texts[g].count("\n", 0, mm.start()) + 1)
                else:
                    problems.append("%s: realizeTopology declared but %d out-of-line definitions found" % (name, len(hits)))
            params, caches, nz = [], [], 0
            if rt is not None:
                for a in re.finditer(r"allocate(AutoUpdate)?DiscreteVariable\s*\(\s*[^,;]*?,\s*Stage::(\w+)", rt):
                    params.append(SN[a.group(2)])
                for a in re.finditer(r"allocate(Lazy)?CacheEntry\s*\(\s*[^,;]*?,\s*Stage::(\w+)(?:\s*,\s*Stage::(\w+))?", rt):
                    dep = SN[a.group(2)]
                    comp = SN["Infinity"] if a.group(1) else (SN[a.group(3)] if a.group(3) else dep)
                    caches.append((dep, comp))
                nz = len(re.findall(r"allocateZ\s*\(", rt))
                ndv = len(re.findall(r"allocate\w*DiscreteVariable\s*\(", rt))
                nce = len(re.findall(r"allocate\w*CacheEntry\w*\s*\(", rt))
                if ndv != len(params) or nce != len(caches):
                    problems.append("%s: %d/%d allocate…DiscreteVariable and %d/%d allocate…CacheEntry calls understood"
                                    % (name, len(params), ndv, len(caches), nce))
            classes.append(dict(name=name, file=rel, line=line, pos=pos, posnote=posnote, posline=posline,
                                params=params, caches=caches, nz=nz, rtwhere=rtwhere))
    classes.sort(key=lambda c: c["name"])
    names = [c["name"] for c in classes]
    for must in ("Force::TwoPointLinearSpringImpl", "Force::MobilityLinearSpringImpl", "Force::GravityImpl",
                 "Force::CustomImpl"):
        if must not in names:
            problems.append("expected class %s not found" % must)
    if len(classes) < 15:
        problems.append("only %d ForceImpl subclasses found" % len(classes))
    if len(set(names)) != len(names):
        problems.append("duplicate class names")
    # Force::Gravity: every State-taking setter that writes the parameters must invalidate the force cache first.
    # Structural: within every function body (setters and the GravityImpl helpers they call) each write site
    # (`updParameters(`, or a call of a helper that writes without dominating invalidation of its own) must be
    # dominated by an invalidation site (`invalidateForceCache(`): earlier in the text, in the same or an enclosing
    # block, and not the body of a brace-less if/else/for/while.
    gfile = os.path.join(srcdir, "Force_Gravity.cpp")
    setters = []
    if gfile in texts:
        gt = texts[gfile]
        funcs = {}
        for mm in re.finditer(r"\b(\w+)\s*\(([^()]*\bState\s*&[^()]*)\)\s*(?:const\s*)?(?:override\s*)?\{", gt):
            nm = mm.group(1)
            if nm in ("if", "for", "while", "switch", "catch"):
                continue
            b, _ = body_at(gt, mm.end() - 1)
            pre = gt[max(0, mm.start() - 40):mm.start()]
            funcs.setdefault(nm, []).append(dict(body=b, line=gt.count("\n", 0, mm.start()) + 1,
                                                 public=bool(re.search(r"Force::Gravity::\s*$", pre)),
                                                 mutable="const State" not in mm.group(2)))

        def sites(body, pat):
            """(offset, block path, conditional-single-statement?) of every match of pat in body"""
            res = []
            for m2 in re.finditer(pat, body):
                path, stack, nblocks = [], [], 0
                for i, ch in enumerate(body[:m2.start()]):
                    if ch == "{":
                        nblocks += 1; stack.append(nblocks)
                    elif ch == "}" and stack:
                        stack.pop()
                path = tuple(stack)
                st = max(body.rfind(";", 0, m2.start()), body.rfind("{", 0, m2.start()), body.rfind("}", 0, m2.start())) + 1
                cond = bool(re.match(r"\s*(if|else|for|while)\b", body[st:m2.start()]))
                res.append((m2.start(), path, cond))
            return res

        def analyse(name, seen=()):
            """(writes, every write dominated by an invalidation) for all overloads of `name`"""
            writes, ok = False, True
            for fn in funcs.get(name, []):
                b = fn["body"]
                inv = [x for x in sites(b, r"\binvalidateForceCache\s*\(") if not x[2]]
                wr = list(sites(b, r"\bupdParameters\s*\("))
                for h in funcs:
                    if h in (name, "updParameters", "invalidateForceCache") or h in seen:
                        continue
                    hs = sites(b, r"\b%s\s*\(" % re.escape(h))
                    if hs:
                        hw, hok = analyse(h, seen + (name,))
                        if hw and not hok:
                            wr += hs            # an unprotected write inside the helper
                        elif hw:
                            writes = True       # protected by the helper itself
                for (wo, wp, _) in wr:
                    writes = True
                    if not any(io < wo and wp[:len(ip)] == ip for (io, ip, _) in inv):
                        ok = False
            return writes, ok

        for nm, lst in sorted(funcs.items()):
            pub = [fn for fn in lst if fn["public"] and fn["mutable"] and nm.startswith("set")]
            if pub:
                w, ok = analyse(nm)
                setters.append((nm, pub[0]["line"], w, w and ok))
        if len(setters) < 4:
            problems.append("only %d Force::Gravity state setters found" % len(setters))
    else:
        problems.append("Force_Gravity.cpp not found")
    # matter subsystem: the cache entries allocated with prerequisites
    mfile = os.path.join(srcdir, "SimbodyMatterSubsystemRep.cpp")
    mentries = []
    if mfile in texts:
        mt = texts[mfile]
        ncalls = len(re.findall(r"allocateCacheEntryWithPrerequisites\s*\(", mt))
        for mm in re.finditer(r"tc\.(\w+)\s*=\s*\w+\.allocateCacheEntryWithPrerequisites\s*\(\s*getMySubsystemIndex\s*\(\s*\)\s*,"
                              r"\s*Stage::(\w+)\s*,\s*Stage::(\w+)\s*,\s*(true|false)\s*,\s*(true|false)\s*,\s*(true|false)\s*,"
                              r"\s*\{([^{}]*)\}\s*,\s*\{((?:[^{}]|\{[^{}]*\})*)\}\s*,\s*new\b", mt):
            if mm.group(7).strip():
                problems.append("matter entry %s has discrete-variable prerequisites (not modelled)" % mm.group(1))
            pre = re.findall(r"tc\.(\w+)", mm.group(8))
            if len(pre) != len(re.findall(r"CacheEntryKey\s*\(", mm.group(8))):
                problems.append("matter entry %s: prerequisite list not understood" % mm.group(1))
            mentries.append(dict(name=mm.group(1), dep=SN[mm.group(2)], comp=SN[mm.group(3)], q=mm.group(4), u=mm.group(5),
                                 z=mm.group(6), pre=pre, line=mt.count("\n", 0, mm.start()) + 1))
        if len(mentries) != ncalls or not mentries:
            problems.append("%d of %d allocateCacheEntryWithPrerequisites calls of the matter subsystem understood"
                            % (len(mentries), ncalls))
    else:
        problems.append("SimbodyMatterSubsystemRep.cpp not found")
    setters.sort()
    L = ["/-!", "GENERATED by checks/C16.py (`SPEC['gen']`) from /repo/Simbody/src on every run -- do not edit.",
         "One row per subclass of ForceImpl: value returned by dependsOnlyOnPositions() (`none` = delegated to user",
         "code), the `Stage::X` of every allocate[AutoUpdate]DiscreteVariable / allocate[Lazy]CacheEntry in its",
         "realizeTopology (stages as numbers 0..10 = Empty..Infinity), number of allocateZ calls.", "-/",
         "namespace C16.Gen", "",
         "structure FClass where", "  name : String", "  posOnly : Option Bool", "  paramStages : List Nat",
         "  cacheStages : List (Nat × Nat)", "  nZ : Nat", "deriving Repr, DecidableEq", "",
         "def table : List FClass := ["]
    rows = []
    for c in classes:
        rows.append("  -- %s:%d  dependsOnlyOnPositions: %s%s;  realizeTopology: %s\n  { name := \"%s\", posOnly := %s, "
                    "paramStages := [%s], cacheStages := [%s], nZ := %d }"
                    % (c["file"], c["line"], c["posnote"], (" (line %d)" % c["posline"]) if c["posline"] else "",
                       c["rtwhere"] or "none (inherited no-op)", c["name"], c["pos"],
                       ", ".join(str(x) for x in c["params"]),
                       ", ".join("(%d, %d)" % x for x in c["caches"]), c["nz"]))
    L.append(",\n".join(rows))
    L += ["]", "",
          "/-- Force::Gravity setters taking a State: (name, writes the parameter variable, invalidates the force cache first) -/",
          "def gravitySetters : List (String × Bool × Bool) := ["]
    L.append(",\n".join("  -- Simbody/src/Force_Gravity.cpp:%d\n  (\"%s\", %s, %s)" % (ln, n, str(w).lower(), str(i).lower())
                        for n, ln, w, i in setters))
    L += ["]", "",
          "/-- cache entries the matter subsystem allocates with prerequisites (SimbodyMatterSubsystemRep.cpp,",
          "realizeSubsystemTopologyImpl): depends-on / computed-by stage, q/u/z prerequisites, prerequisite entries -/",
          "structure MEntry where", "  name : String", "  dep : Nat", "  comp : Nat", "  q : Bool", "  u : Bool", "  z : Bool",
          "  pre : List String", "deriving Repr, DecidableEq", "",
          "def matterEntries : List MEntry := ["]
    L.append(",\n".join("  -- Simbody/src/SimbodyMatterSubsystemRep.cpp:%d\n  { name := \"%s\", dep := %d, comp := %d, q := %s, u := %s, "
                        "z := %s, pre := [%s] }" % (e["line"], e["name"], e["dep"], e["comp"], e["q"], e["u"], e["z"],
                                                    ", ".join('"%s"' % x for x in e["pre"])) for e in mentries))
    L += ["]", "", "/-- structural self-checks of the extraction passed -/",
          "def extractionOK : Bool := %s" % ("true" if not problems else "false")]
    for p in problems:
        L.append("-- PROBLEM: " + p)
    L += ["", "end C16.Gen", ""]
    out = "\n".join(L)
    p = os.path.join(lean, "SimbodyModel", "Gen", "ForceParams.lean")
    os.makedirs(os.path.dirname(p), exist_ok=True)
    if not os.path.exists(p) or open(p).read() != out:
        open(p, "w").write(out)
    bad = [c["name"] for c in classes if c["pos"] == "some true" and any(s > 5 for s in c["params"])]
    return dict(classes=len(classes), problems=problems, position_only_with_late_params=bad,
                gravity_setters=[(n, w, i) for n, _, w, i in setters],
                matter_entries=[e["name"] for e in mentries])


SPEC = dict(
    prop="C16",
    proof_module="SimbodyProofs.C16",
    sources=["SimbodyModel/Proto.lean", "SimbodyModel/Gen/ForceParams.lean", "SimbodyModel/C16.lean", "SimbodyModel/C18.lean",
             "SimbodyProofs/C16_lemmas.lean", "SimbodyProofs/C16.lean", "Drivers/C16.lean"],
    flow="harness_first",
    gen=gen_force_params,
    n=dict(quick=250, thorough=20000),
    rtol=0.0, atol=0.0,
    rule="case 0 = the F4 history; then 83 directed histories (realize(Acceleration) -> exactly one public State-level setter / "
         "enable / disable -> realize(Acceleration), one per force type and setter, keys <Force>.<setter>.param_after_realize.history, "
         "zdot under ....zdot.history; incl. Force::Gravity exclusion changes at zero magnitude); then the matter-subsystem history "
         "differential: 19 mobilizer types (full palette incl. FunctionBased with q-dependent H, coupled functions, a Custom mobilizer) "
         "x forward/reversed x 8 order classes (P_q_P, P_q_P_V, V_u_V, V_q_V, A_q_P_A, P_q_A, A_u_A, random) on one reused State, "
         "digest of everything readable at the final stage compared bit for bit with a fresh State (keys "
         "matter.history.<Type>.<order>.bits_equal, floor matter.history.coverage_floor); 41 operators taking a const State x 3 "
         "cases: realize(Acceleration), call the operator with random arguments, digest without re-realizing vs fresh State (keys "
         "matter.history.constop.<Operator>.bits_equal, floor matter.history.constop.coverage_floor); 21 constraint subjects (every "
         "built-in constraint type, contact constraints with and without rolling) x the same 8 order classes (keys "
         "matter.history.constraint.<Type>.<order>.bits_equal, floor matter.history.constraint.coverage_floor); then n random cases from "
         "VERIF_SEED, one in six a random palette tree with a random matter history, about half plain (1-3 Pin/Slider bodies, 1-2 elements of a subject force type with state parameters + "
         "background elements + Custom probes (position, velocity, position+time, own state parameter) + optional Force::Gravity; "
         "8-25 operations), one in three rich (Pin/Slider/Ball/Free bodies, 1-2 constraints, locks, Euler/quaternion option, event "
         "witness; 10-27 operations incl. lock/lockAt/unlock, constraint enable/disable, setUseEulerAngles, explicit requests and "
         "invalidations of the matter subsystem's lazy entries); records = operations; at `check` records udot, body/mobility "
         "forces, PE, KE, zdot (rich: also multipliers, constraint errors, witness values, body kinematics, composite/articulated "
         "inertias) are compared with a freshly created State (P); O lines (stage, gravity cache validity / evaluations, probe "
         "call counts, the five is...Realized flags of the matter subsystem, staleness) are compared exactly with the Lean model "
         "instantiated from the regenerated tables",
    partial="(i) proved about the executed model: force totals after any history (GeneralForceSubsystem and Force::Gravity cache "
            "protocol) given the table obligations; validity => currency of the matter subsystem's five lazy entries "
            "(lazy_entries_depend_on_position_version) given matter_table_ok. (ii) predicate-only (P lines on the real API): that "
            "each calcForce reads only what its class declares, elements with lazy caches of their own (LinearBushing, CableSpring: "
            "only the table clause LazyRowOK is proved), udot/PE/KE/kinematics, the kinematics and dynamics operators of every mobilizer type on a reused State (bitwise "
            "matter.history keys), multipliers, constraint errors, constraint enable "
            "flags, locks, Euler/quaternion option, one q,u,t event witness, composite/articulated inertias (the model sees locks / "
            "constraint flags / the Euler option only as 'an Instance- / Model-stage variable changed'). (iii) not covered: contact "
            "elements (HuntCrossley, ElasticFoundation, SmoothSphereHalfSpace are table rows only), witnesses of library event "
            "handlers, non-conforming user-written elements, State-level parameter setters of constraints and Custom constraints; the link between the C16 and C18 models is an executed cross-check "
            "(the driver runs the matter entries on the C18 State model too and flags any disagreement in stage or validity on "
            "every generated history), not a theorem; exact comparison of calcForce call counts / getNumEvaluations is performance "
            "behaviour (a harmless caching refactor shows up as a correspondence mismatch)",
    assumptions=["System::realize keeps system and subsystem stages equal (one stage number in the model); the stage effect of a "
                 "variable change and the validity rule of lazy entries are hand transcriptions of the mechanism modelled in C18 "
                 "(StateImpl.h); the driver cross-checks them against the C18 Lean model on every history (BRIDGE-MISMATCH token)"],
)
