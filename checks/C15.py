"""C15 — system mass, momentum and composite inertias equal per-body sums (DESIGN.md §5 C15)."""
SPEC = dict(
    prop="C15",
    proof_module="SimbodyProofs.C15",
    sources=["SimbodyModel/Proto.lean", "SimbodyModel/TreeDyn.lean", "SimbodyModel/TreeDynIO.lean", "SimbodyModel/C15.lean",
             "SimbodyProofs/TreeDynAbs.lean", "SimbodyProofs/TreeDynRefine.lean", "SimbodyProofs/TreeDynSim.lean",
             "SimbodyProofs/C15.lean", "Drivers/C15.lean"],
    n=dict(quick=300, thorough=20000),
    rtol=1e-9, atol=1e-12,
    rule="random trees from VERIF_SEED as in C01 (17 mobilizer types, forward/reversed, 9 frame pairs, quaternion/Euler, 1-12 bodies, "
         "thorough: 1/5 of the cases up to 40), random q, u (zero in 10%), random applied forces, realized through Acceleration; "
         "distinct = distinct exported records",
    partial='the principal clause (each aggregate equals the sum over bodies computed from reported body-frame poses, velocities, accelerations and mass properties) is decided by the implementation-side predicates (long-double recomputation) only: the model DEFINES the aggregates as those sums at Ground-frame level, so the theorems prove consequences (M*v_com = P, system parallel-axis theorem, Koenig per body, composite inertia = subtree sum on the abstract twin + node-level simulation sim_cbi of the executed cbiIn recursion for positive masses, structured SpatialInertia shift/+= = dense); body-frame -> Ground re-expression is not modelled; zero total mass and Instance-stage mass changes (no such state variable in this simbody) are not generated',
    assumptions=[
        "the model takes per-body quantities already expressed in Ground (Mk_G = getBodySpatialInertiaInGround, body origin, "
        "V_GB, A_GB); re-expression of body-frame mass properties (Rotation::reexpressSymMat33) is C29's subject and is exercised "
        "here only by the implementation-side predicates, which start from the body-frame API values",
        "per-state (Instance-stage) mass changes are not supported by this tree's public API and are not generated; the C++ guards "
        "division by a zero total mass, the model does not (generated systems have positive mass)",
    ],
)
