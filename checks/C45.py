"""C45 — cable paths are geometrically and energetically consistent (DESIGN.md §5 C45)."""
SPEC = dict(
    prop="C45",
    proof_module="SimbodyProofs.C45",
    sources=["SimbodyModel/Proto.lean", "SimbodyModel/C45.lean", "SimbodyProofs/C45.lean", "Drivers/C45.lean"],
    n=dict(quick=600, thorough=15000),
    rtol=1e-9, atol=1e-12,
    rule="random systems of 1..3 free bodies (random poses and speeds); ~70% CableSpan (both algorithms, 0..4(5) items: "
         "sphere / cylinder / ellipsoid / torus obstacles pressed into the line or lifted off, via points, attachment "
         "bodies drawn at random), ~20% CablePath through via points + CableSpring, ~10% CablePath over spheres + "
         "CableSpring; only converged solves are used; distinct = distinct exported path records",
    partial="(i) proved about the executed model (CableSpan.cpp formulas, tied to the implementation at 1e-14 on every unit force, "
            "length, length rate, power, resultants): length >= end-point distance given arcs >= chords (length_ge_straight); length "
            "rate = d/dt length for straight segments and whole via-point paths (jets: lengthdot_is_derivative, "
            "lengthDot_via_is_derivative); for ANY path data resultant force = sum of tangent defects and power + T*Ldot = T * sum "
            "defect.velocity (totalForce_eq_defects, unitPower_add_lengthDot_eq_defects), hence zero for an exactly smooth path "
            "(forces_sum_zero, moments_sum_zero, power_eq_minus_tension_lengthdot); the harness bounds the force / moment / power "
            "predicates by 3*nSegments*getSmoothness via these identities (the step defect <= sqrt2*path error is not formalised).  "
            "(ii) predicate-only: length = sum of segments; arcs >= chords; length rate = dL/dt for CURVED segments (central "
            "difference along qdot=N u, 1e-3 relative, skipped when the contact set changes; a missing term below 1e-4 relative is not "
            "detectable); curve points on the surface (7 samples, closed-form implicit functions); straight segments outside "
            "obstacles (closed-form line/quadric test for sphere, cylinder, ellipsoid; 23 samples for the torus); tangents aligned "
            "with their segments; CableSpring power and resultants; slack cable applies nothing.  Floors require >= 80 % of the "
            "CableSpan solves per algorithm to converge, >= 30 % of them with a contact, >= 80 % of the finite differences to be "
            "usable, >= 15 % of the legacy CablePath-over-surface solves to converge (legacy CablePath has no convergence flag: its "
            "status is scraped from std::cout text, a wording change would trip this floor).  (iii) not covered: the path solver "
            "itself (geodesic shooting, Newton/QP iteration, touchdown / lift-off decisions) beyond the predicates above; closed-form "
            "geodesics (C47)",
    assumptions=["libm sqrt is trusted (the model takes sqrt as a parameter with its algebraic specification)"],
)
