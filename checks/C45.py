"""C45 — cable paths are geometrically and energetically consistent (DESIGN.md §5 C45)."""
SPEC = dict(
    prop="C45",
    proof_module="SimbodyProofs.C45",
    sources=["SimbodyModel/Proto.lean", "SimbodyModel/C45.lean", "SimbodyProofs/C45.lean", "Drivers/C45.lean"],
    n=dict(quick=600, thorough=15000),
    rtol=1e-9, atol=1e-12,
    rule="random systems of 1..3 free bodies (random poses and speeds); ~70% CableSpan (both algorithms, 0..4(5) items: "
         "sphere / cylinder / ellipsoid / torus obstacles pressed into the line or lifted off, via points, attachment "
         "bodies drawn at random), ~20% CablePath through via points + CableSpring, ~10% CablePath over spheres + "
         "CableSpring; only converged solves are used; distinct = distinct exported path records",
    partial="the path solver (geodesic shooting, Newton/QP iteration, touchdown / lift-off) is not modelled: path points, "
            "tangents and arc lengths are exported from the implementation and the model recomputes length, length rate, "
            "unit forces, power and force/moment resultants from them (agreement 1e-15); the theorems about power and the "
            "third law assume the smoothness a converged solve delivers; 'length rate is the time derivative' is proved for "
            "straight segments and whole via-point paths (jets) and measured by central differences along qdot=N u for "
            "curved segments; 'curved segments lie on the surface' and 'straight segments stay outside' are "
            "implementation-side predicates only (closed-form implicit functions of sphere/cylinder/ellipsoid/torus); "
            "legacy CablePath has no convergence flag: the harness re-realizes until the length is stationary",
    assumptions=["libm sqrt is trusted (the model takes sqrt as a parameter with its algebraic specification)"],
)
