"""C04 — Jacobian operators map speeds to reported velocities; transposes are adjoints; bias terms (DESIGN.md §5 C04)."""
SPEC = dict(
    prop="C04",
    proof_module="SimbodyProofs.C04",
    sources=["SimbodyModel/Proto.lean", "SimbodyModel/C04.lean", "SimbodyProofs/C04_lemmas.lean",
             "SimbodyProofs/C04.lean", "Drivers/C04.lean"],
    lake_targets=["SimbodyProofs.C04_lemmas"],
    n=dict(quick=300, thorough=4000),
    modes=["", "big"],          # "": 1..12 bodies, n trees;  "big": 13..40 bodies, n/10 trees
    rtol=1e-9, atol=1e-12,
    rule="random trees from VERIF_SEED (chain / star / random branching; 19 mobilizer types incl. FunctionBased(Custom), "
         "forward/reversed, identity/translation/general frames, quaternion/Euler), random q,u,udot, body forces, task "
         "lists with repeated bodies and Ground tasks; one record per tree carries all 14 operator outputs; "
         "distinct = distinct tree records",
    partial=None,
    assumptions=[
        "exported-H mode: hinge columns (getHCol), body origins/orientations and the per-mobilizer Coriolis increment "
        "(getMobilizerCoriolisAcceleration) are taken from the implementation; that H, HDot are the right functions of q is "
        "C03/C05's subject (C04 checks it only through the finite-difference predicate bias = d/dt(J) u, judged per body: a body is "
        "under a known-defect key only if a defective mobilizer lies on its own inboard path)",
        "the flat generalized-speed layout (u0, dof per body) is exported; theorems with flat vectors assume blocks inside [0,n) "
        "and distinct body indices (checked facts of every exported tree)"],
)
