"""C31 — random generators are deterministic and in range; SFMT reproduces the reference (DESIGN.md §5 C31)."""
import os, re
from tools import vlib


def gen_sfmt_params(ctx=None):
    """translator: SFMT-params.h (default MEXP, unless the build defines -DMEXP=) + SFMT-params<MEXP>.h
    -> lean/SimbodyModel/Gen/SFMTParams.lean (rewritten only when the content changes)."""
    d = os.path.join(vlib.REPO, "SimTKcommon", "Random", "src")

    def defines(path):
        out = {}
        for ln, line in enumerate(open(path, errors="replace").read().split("\n"), 1):
            m = re.match(r"^\s*#\s*define\s+(\w+)\s+(0[xX][0-9a-fA-F]+|\d+)[uUlL]*\s*(?:/\*.*\*/\s*)?$", line)
            if m and m.group(1) not in out:
                out[m.group(1)] = (int(m.group(2), 0), ln, line.strip())
        return out

    rel = lambda p: os.path.relpath(p, vlib.REPO)
    p0 = os.path.join(d, "SFMT-params.h")
    mexp = defines(p0)["MEXP"]
    mexp_src = "%s:%d  `%s`" % (rel(p0), mexp[1], mexp[2])
    bn = os.path.join(vlib.BUILD, "build.ninja")
    if os.path.exists(bn):
        m = re.search(r"-DMEXP=(\d+)", open(bn, errors="replace").read())
        if m:
            mexp = (int(m.group(1)), 0, "-DMEXP=%s" % m.group(1))
            mexp_src = "build.ninja compile flag `-DMEXP=%s`" % m.group(1)
    p1 = os.path.join(d, "SFMT-params%d.h" % mexp[0])
    t = defines(p1)
    names_nat = ["POS1", "SL1", "SL2", "SR1", "SR2"]
    names_u32 = ["MSK1", "MSK2", "MSK3", "MSK4", "PARITY1", "PARITY2", "PARITY3", "PARITY4"]
    L = ["/-! GENERATED on every run by checks/C31.py (SPEC['gen']) from the current /repo working tree - do not edit.",
         "Source: %s (MEXP) and %s (the parameter set selected by MEXP). -/" % (rel(p0), rel(p1)),
         "namespace C31.Gen",
         "def srcFiles : List String := [\"%s\", \"%s\"]" % (rel(p0), rel(p1)),
         "/-- %s -/" % mexp_src,
         "def MEXP : Nat := %d" % mexp[0]]
    for n in names_nat:
        L += ["/-- %s:%d  `%s` -/" % (rel(p1), t[n][1], t[n][2]), "def %s : Nat := %d" % (n, t[n][0])]
    for n in names_u32:
        L += ["/-- %s:%d  `%s` -/" % (rel(p1), t[n][1], t[n][2]), "def %s : UInt32 := 0x%08x" % (n, t[n][0])]
    L += ["end C31.Gen", ""]
    txt = "\n".join(L)
    out = os.path.join(vlib.LEAN, "SimbodyModel", "Gen", "SFMTParams.lean")
    os.makedirs(os.path.dirname(out), exist_ok=True)
    if not os.path.exists(out) or open(out).read() != txt:
        open(out, "w").write(txt)
    vals = {"MEXP": mexp[0]}
    for n in names_nat:
        vals[n] = t[n][0]
    for n in names_u32:
        vals[n] = "0x%08x" % t[n][0]
    return dict(file="SimbodyModel/Gen/SFMTParams.lean", sources=[rel(p0), rel(p1)], values=vals,
                lines={n: t[n][1] for n in names_nat + names_u32})


SPEC = dict(
    prop="C31",
    proof_module="SimbodyProofs.C31",
    sources=["SimbodyModel/Proto.lean", "SimbodyModel/Gen/SFMTParams.lean", "SimbodyModel/C31.lean",
             "SimbodyProofs/C31_lemmas.lean", "SimbodyProofs/C31.lean", "Drivers/C31.lean"],
    gen=gen_sfmt_params,
    n=dict(quick=600, thorough=20000),
    rtol=0.0, atol=0.0,
    rule="records from VERIF_SEED: Uniform real/integer mode over seeds {0,1,-1,INT_MIN,INT_MAX,random} x range classes "
         "(unit, positive, negative, straddling, tiny, large offset) x stream positions around the 1024-word buffer refills; "
         "Gaussian; fillArray; mid-stream setSeed/setMin/setMax; interleaved objects; direct SFMT gen_rand32/64, "
         "fill_array32/64 (sizes below and above 2N), mixed; published known answer; boundary raw words; "
         "distinct = distinct input records",
    partial="(i) proved about the executed model: parameters = published set (translator), to_res53 in [0,1] and <1 iff raw<2^64-2^10, "
            "real and integer range over Q for the model's getValue/getIntValue, history-independence of the streams after setSeed, "
            "Gaussian domain, period certification; binary64 range: refuted at witnesses (F8). "
            "(ii) predicate-only: lower bound min<=value in binary64; mean/variance (5-sigma on 1e5 normalised samples; tiny lattice ranges "
            "excluded) and integer-mode bucket chi-square (no theorem about the distribution); 'reproduces the reference SFMT output' beyond "
            "the parameters: the library equals an independent SFMT-19937 written from the published recurrence over >=6000 words per run "
            "(32-bit, 64-bit, fill_array32, public Uniform stream) and the five published words of seed 1234 - the published file itself is not "
            "embedded; fill_array-buffered stream = sequential stream by execution. "
            "(iii) not covered: default-constructor seeding (++nextSeed), Gaussian::setMean/setStdDev, min>=max, stddev<=0; the Gaussian "
            "values use libm log/sqrt (model parameters; compared at 1e-13 relative)",
    assumptions=["standard-C code path of SFMT.cpp (no HAVE_SSE2/HAVE_ALTIVEC, little endian), x87 long double in to_res53 "
                 "(the product v*2^-64 is exact, one rounding to binary64)",
                 "integer mode is exercised with integer-valued min<max inside the int range"],
)
