"""C02 — forward and inverse dynamics of trees are exact inverses (DESIGN.md §5 C02)."""
SPEC = dict(
    prop="C02",
    proof_module="SimbodyProofs.C02",
    sources=["SimbodyModel/Proto.lean", "SimbodyModel/TreeDyn.lean", "SimbodyModel/TreeDynIO.lean", "SimbodyModel/C02.lean",
             "SimbodyProofs/TreeDynAbs.lean", "SimbodyProofs/TreeDynRefine.lean",
             "SimbodyProofs/C02.lean", "Drivers/C02.lean"],
    n=dict(quick=300, thorough=20000),
    rtol=1e-9, atol=1e-12,
    rule="random trees from VERIF_SEED (1-12 bodies, thorough: 1/5 of the cases up to 40; chain/star/random/bushy; 17 mobilizer "
         "types x forward/reversed x {identity,translation,general}^2 frames x quaternion/Euler; mass properties from point clouds); "
         "distinct = distinct exported tree records",
    partial='the theorems are stated about the abstract Matrix twin TreeDynAbs.MBT; the executed list/rose-tree recursions of SimbodyModel/TreeDyn.lean are tied to it by refinement lemmas per 6-D operation (TreeDynRefine) and by the simulation theorems listed in notes (TreeDynSim), not by a complete end-to-end equivalence: packing of the u-vector (slice/scatter), building the tree from the parent array and the Gauss-Jordan inverse are carried by the correspondence and the per-case wf check only',
    assumptions=[
        "exported-H mode: H columns (getHCol), Mk_G (getBodySpatialInertiaInGround), body origins and the velocity-dependent "
        "bias terms a = getMobilizerCoriolisAcceleration, b = getGyroscopicForce are taken from the implementation; their "
        "computation from (q,u) belongs to C03/C05",
        "D.invert() is modelled by Gauss-Jordan elimination; the theorems take DI as data with the hypothesis WF (D*DI = 1), "
        "derived from positive definite body inertias in C01.WF_of_posdef and validated per case by C01 (O wf 1)",
        "the list-level glue of the executable model (H as a list of columns, D/DI/G as lists) is tied to the abstract "
        "Matrix twin by the refinement lemmas for every 6-D operation plus the correspondence, not by a full simulation proof",
    ],
)
