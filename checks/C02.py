"""C02 — forward and inverse dynamics of trees are exact inverses (DESIGN.md §5 C02)."""
SPEC = dict(
    prop="C02",
    proof_module="SimbodyProofs.C02",
    sources=["SimbodyModel/Proto.lean", "SimbodyModel/TreeDyn.lean", "SimbodyModel/TreeDynIO.lean", "SimbodyModel/C02.lean",
             "SimbodyProofs/TreeDynAbs.lean", "SimbodyProofs/TreeDynRefine.lean", "SimbodyProofs/TreeDynSim.lean", "SimbodyProofs/TreeDynSimAbi.lean", "SimbodyProofs/TreeDynSimFwd.lean", 
             "SimbodyProofs/C02.lean", "Drivers/C02.lean"],
    n=dict(quick=300, thorough=20000),
    rtol=1e-9, atol=1e-12,
    rule="random trees from VERIF_SEED (1-12 bodies, thorough: 1/5 of the cases up to 40; chain/star/random/bushy; 17 mobilizer "
         "types x forward/reversed x {identity,translation,general}^2 frames x quaternion/Euler; mass properties from point clouds); "
         "distinct = distinct exported tree records; every case also exercises the documented zero-length argument conventions of the inverse-dynamics operators (8 combinations, floor 50% at u != 0)",
    partial='the property theorems are stated on the abstract Matrix twin TreeDynAbs.MBT; the executed rose-tree/list recursions of SimbodyModel/TreeDyn.lean are tied to it by NODE-LEVEL simulation theorems (TreeDynSim*.lean: for every executed subtree and incoming parent acceleration the value the executed pass stores at the node equals the twin quantity on the abstracted tree: multiplyByM, articulated body inertias P/P+/G incl. the explicit symmetrisation, multiplyByMInv, forward dynamics, inverse dynamics, J^T, reactions; free mobilizers only) plus refinement lemmas per 6-D operation. NOT proved: packing of the per-node blocks into the u-vector (slice/scatter, disjoint u0 ranges), construction of the tree from the flat parent array, that the Gauss-Jordan ginv inverts D (WF is a hypothesis of the ABI-dependent simulations, validated per case by O wf), hence no end-to-end array identity such as multiplyByM(multiplyByMInv f) = f for the executed functions; those links are carried by the correspondence',
    assumptions=[
        "exported-H mode: H columns (getHCol), Mk_G (getBodySpatialInertiaInGround), body origins and the velocity-dependent "
        "bias terms a = getMobilizerCoriolisAcceleration, b = getGyroscopicForce are taken from the implementation; their "
        "computation from (q,u) belongs to C03/C05",
        "D.invert() is modelled by Gauss-Jordan elimination; the theorems take DI as data with the hypothesis WF (D*DI = 1), "
        "derived from positive definite body inertias in C01.WF_of_posdef and validated per case by C01 (O wf 1)",
        "the list-level glue of the executable model (H as a list of columns, D/DI/G as lists) is tied to the abstract "
        "Matrix twin by the refinement lemmas for every 6-D operation plus the correspondence, not by a full simulation proof",
    ],
)
