"""C23 — Measures compute what their definitions say (DESIGN.md §5 C23)."""
SPEC = dict(
    prop="C23",
    proof_module="SimbodyProofs.C23",
    sources=["SimbodyModel/Proto.lean", "SimbodyModel/C23.lean", "SimbodyProofs/C23.lean", "Drivers/C23.lean"],
    n=dict(quick=100, thorough=2500),
    rtol=1e-9, atol=1e-12,
    rule="(a) random operation sequences (append / prepend / copyInAndUpdate with buffer swap / query / clear; 5..60 ops, thorough "
         "..200; non-monotone times, varying delays) on real Measure_Delay_Buffer<Real> objects; (b) MultibodySystem simulations "
         "(8 guaranteed: every integrator x {return-every-step, report grid with interpolated report states}, then random) with "
         "Time, Sinusoid, Scale, Constant, Plus and Minus, the four Extreme operations on the operand, an Extreme of a Sinusoid "
         "(its time derivative), an Extreme of a Delay (nested auto-update measures), a Vec3 Integrate + Vec3 Extreme, Delay with "
         "zero / shorter-than-step / long delays and both option flags toggled, Integrate and approximating Differentiate; the "
         "operand and every measure are logged at every completed step and at every report state and replayed through the "
         "model; distinct = distinct input records; floor: >= 8 simulations must reach the predicates",
    partial="(i) proved about the executed model: Extreme value/time (any history, all four operations; extRun = extFold; report "
            "states observe only), Delay buffer invariant, forgetting-is-invisible, bracket/exact-at-samples, delayRun = reference "
            "semantics on the unpruned history, approximating Differentiate exact on affine operands from the reachable initial "
            "state and its undamped error on quadratics, Integrate under explicit Euler = initial condition + left Riemann sum.  "
            "(ii) predicate only: accuracy of Integrate against the analytic integral (integrator-order bounds; z is predicted "
            "bit-exactly only for explicit Euler, for the other integrators only zdot = operand and z(t0) = ic are tied), accuracy "
            "of the approximating Differentiate (bound 0.75*M2*h + 3*M3*h^2, judged only when that is <= 25% of the derivative's "
            "amplitude), Delay against operand(t - delay) within the interpolation/extrapolation bound, Constant/Time exact.  "
            "(iii) not covered: Variable/Result (plain state/cache accessors), SampleAndHold (declared NOT IMPLEMENTED YET in "
            "Measure.h, no implementation), event-triggered sampling, measures of types other than Real and Vec3, buffer "
            "capacities (Array_'s allocation policy; only size <= capacity is checked), Delay's cubic interpolation (TODO in the "
            "source: the option flags have no effect on the value, which is what the model says too)",
    assumptions=["the circular array layout of Measure_Delay_Buffer is tied by correspondence; theorems are about its logical contents"],
)
