"""C23 — Measures compute what their definitions say (DESIGN.md §5 C23)."""
SPEC = dict(
    prop="C23",
    proof_module="SimbodyProofs.C23",
    sources=["SimbodyModel/Proto.lean", "SimbodyModel/C23.lean", "SimbodyProofs/C23.lean", "Drivers/C23.lean"],
    n=dict(quick=120, thorough=3000),
    rtol=1e-9, atol=1e-12,
    rule="(a) random operation sequences (append / prepend / copyInAndUpdate with buffer swap / query / clear; 5..60 ops, thorough "
         "..200; non-monotone times, varying delays) on real Measure_Delay_Buffer<Real> objects; (b) MultibodySystem simulations "
         "with Time, Sinusoid, Scale, Constant, Plus/Minus, the four Extreme operations, Delay (short and long delays), Integrate "
         "and approximating Differentiate attached, random parameters and start times, integrated with fixed-step RK3 / explicit "
         "Euler and error-controlled Merson / Fehlberg returning after every internal step; the operand is logged at every step "
         "and replayed through the model; distinct = distinct input records",
    partial="Integrate accuracy is an implementation-side predicate (analytic integral, integrator-order bound); the accuracy of "
            "the approximating Differentiate is a predicate (its recurrence is modelled exactly); vector-valued (Vec3) measures are "
            "modelled (extObserveVec) but only Real measures are exercised; buffer capacities follow Array_'s allocation policy and "
            "are only checked for size <= capacity; SampleAndHold is declared NOT IMPLEMENTED YET in Measure.h (no implementation "
            "exists) and Variable/Result are plain state/cache accessors - not exercised",
    assumptions=["the circular array layout of Measure_Delay_Buffer is tied by correspondence; theorems are about its logical contents"],
)
