"""C10 — prescribed motion and locks are honoured exactly (DESIGN.md §5 C10)."""
SPEC = dict(
    prop="C10",
    proof_module="SimbodyProofs.C10",
    sources=["SimbodyModel/Proto.lean", "SimbodyModel/C10.lean", "SimbodyProofs/C10_lemmas.lean",
             "SimbodyProofs/C10_compose.lean", "SimbodyProofs/C10_aba.lean", "SimbodyProofs/C10.lean", "Drivers/C10.lean"],
    n=dict(quick=300, thorough=12000),
    rtol=1e-9, atol=1e-12,
    rule="case k (all choices from streams seeded by (VERIF_SEED,k)): system A = random tree of 1-13 bodies (one case in ten has 8-13) from the ceq v6 "
         "palette (18 mobilizer types, reversed with p=1/4, random frames, Euler/quaternion; in 1/3 of the cases a guaranteed "
         "RBNodeLoneParticle body), gravity + mobility dampers + a Force::Custom applying a supplied mobility-force vector, "
         "0-2 random constraints, a random subset of mobilizers carrying Motion::Steady / Motion::Sinusoid(Position|Velocity|"
         "Acceleration) / a Motion::Custom (polynomial, or unit-quaternion spin for position level on quaternion mobilizers; "
         "Prescribed, Zero, Discrete, Fast) / disabled-by-default / lockByDefault, then lock(level), lockAt(values, level) with "
         "a contiguous Vector, a strided Vector view or the scalar signature, unlock, Motion::disable/enable, "
         "Steady::setOneRate on the State; system B = same streams without any Motion or lock.  Records per case: chk (the "
         "property's predicates on the implementation, at time t and again after advancing time), presc (instance partition, "
         "callback->pool choice incl. u = N^-1 qdot, scatter vs C10.partition/prescribe/knownUDot), aba (TreeDyn's two passes "
         "with prescribed nodes on exported tree data vs getUDot and getMotionMultipliers), elim (dense block elimination on "
         "calcM / calcResidualForce vs getUDot, getMotionMultipliers, findMotionForces, calcMotionPower), sin, steady (Motion "
         "formulas), lockseq (lock/lockAt/unlock/setQ/setU sequences); distinct = distinct input records",
    partial="per clause (i) proved about the executed model / (ii) predicate- or correspondence-only / (iii) not covered: "
            "[prescribed q,u,udot exact] (i) prescribe_honours_lock/_lockAt_*/_motion/_zero_motion on the executed partition/prescribe/"
            "knownUDot, Sinusoid derivative chain motion_derivs; (ii) Motion::Custom relative to its callbacks; N^-1 and NDot "
            "are exported data (iii). [others solved with the prescribed ones as given inputs; reported forces reproduce the "
            "accelerations] (i) aba_prescribed / tau_as_applied_force are proved for the abstract (Matrix) twin of "
            "calcUDotPass1Inward/Pass2Outward with prescribed nodes on arbitrary rose trees; the refinement between that twin and "
            "the executed TreeDyn.fwdIn/fwdOut is NOT proved - tie is (ii): aba records (udot AND tau, max rel diff 9e-12), elim "
            "records, predicates multipliers.*.eom_residual / as_applied_force; block_* and elim_solves_block_system are block "
            "algebra about the dense reference only (pivots != 0 assumed, SPD => pivots > 0 not proved). [unlock/disable "
            "restores free behaviour] (i) flags + partition_all_free + elim_all_free; same udot (ii) unlock.*.restores_free. "
            "[with constraints] (ii) only; as_applied_force/restores_free need sigma_min(G) >= 1e-6, |lambda| <= 1e6, "
            "|udotErr| <= 1e-8 (else tagged and skipped), eom_residual runs whenever |lambda| <= 1e6. (iii) not generated: "
            "acceleration-level Discrete/Fast (no udot source in the code / documented as not allowed), > 13 bodies, "
            "MobilizedBody::Custom, Line mobilizers with quaternions or position-level Motions, position-level Motions on "
            "BendStretch/SphericalCoords, time integration (two instants only)",
    assumptions=["derivative = eps-part over the dual numbers; the trig pair (cos, sin) of the code's angle expression w*t+p "
                 "is lifted by cdot = -s*thetadot, sdot = c*thetadot (DESIGN §3 item 6); libm sin/cos enter as the pair",
                 "WellFormed: slot ranges of different mobilizers do not overlap and lie inside q/u; one lock value / callback "
                 "value per slot (checked on every presc record through getFirstQIndex/getFirstUIndex/getNumQ/getNumU)",
                 "WFp / WF of the tree theorems: symmetric spatial inertias, DI inverts H'PH at every free joint",
                 "tau convention as coded and documented: M udot + tau + ~G lambda + f_inertial = f_applied (tau on the LHS); "
                 "the force to apply in the un-prescribed system is -tau"],
)
