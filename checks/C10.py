"""C10 — prescribed motion and locks are honoured exactly (DESIGN.md §5 C10)."""
SPEC = dict(
    prop="C10",
    proof_module="SimbodyProofs.C10",
    sources=["SimbodyModel/Proto.lean", "SimbodyModel/C10.lean", "SimbodyProofs/C10_lemmas.lean",
             "SimbodyProofs/C10.lean", "Drivers/C10.lean"],
    n=dict(quick=300, thorough=20000),
    rtol=1e-9, atol=1e-12,
    rule="case k (all choices from streams seeded by (VERIF_SEED,k)): system A = random tree of 1-6 bodies from 13 mobilizer "
         "types (random frames, Euler/quaternion), gravity + mobility dampers + a Force::Custom applying a supplied "
         "mobility-force vector, 0-2 random constraints, a random subset of mobilizers carrying Motion::Steady / "
         "Motion::Sinusoid(Position|Velocity|Acceleration) / a polynomial Motion::Custom (Prescribed, Zero, Discrete) / "
         "disabled-by-default / lockByDefault, then lock(level), lockAt(values, level) with a contiguous Vector, a strided "
         "Vector view or the scalar signature, unlock, Motion::disable/enable, Steady::setOneRate on the State; system B = "
         "same streams without any Motion or lock.  Records per case: chk (the property's predicates on the implementation: "
         "exact q/u/udot after System::prescribe + realize(Acceleration), others untouched, calcMotionErrors == 0, "
         "-tau applied to the un-prescribed system reproduces udot, disabled/unlocked == never prescribed), presc "
         "(instance partition, pools, scatter vs C10.partition/prescribe), elim (dense block elimination on calcM / "
         "calcResidualForce vs getUDot, getMotionMultipliers, findMotionForces, calcMotionPower), sin, steady (Motion "
         "formulas), lockseq (lock/lockAt/unlock/setQ/setU bookkeeping sequences); distinct = distinct input records",
    partial="the O(n) recursion with prescribed nodes (calcUDotPass1Inward/Pass2Outward) is tied to the proved dense block "
            "elimination by correspondence only (elim records, max rel diff 2e-11 over 117k records) - DESIGN's aba_prescribed is not proved; "
            "gaussSolve_correct / elim_sound assume no vanishing pivot (SPD => positive pivots is not proved); Motion::Custom "
            "is relative to the user callbacks; N^-1 / NDot of position-level Motions on mobilizers with qdot != u enter "
            "through the public multiplyByNInv/multiplyByNDot; the constraint multiplier solve is C08's (systems with a rank "
            "deficient constraint Jacobian or constraints conflicting with the prescription are excluded from the "
            "force-equivalence records and counted in the path distribution)",
    assumptions=["derivative = eps-part over the dual numbers; the trig pair (cos, sin) of the code's angle expression w*t+p "
                 "is lifted by cdot = -s*thetadot, sdot = c*thetadot (DESIGN §3 item 6); libm sin/cos enter as the pair",
                 "slot ranges of different mobilizers do not overlap (Alloc): hypothesis of partition_distinct, checked on "
                 "every presc record through getFirstQIndex/getFirstUIndex",
                 "tau convention as coded and documented: M udot + tau + ~G lambda + f_inertial = f_applied (tau on the LHS); "
                 "the force to apply in the un-prescribed system is -tau"],
)
