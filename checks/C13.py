"""C13 — interaction forces obey Newton's third law (DESIGN.md §5 C13)."""
SPEC = dict(
    prop="C13",
    proof_module="SimbodyProofs.C13",
    harness="ForceLaws",
    sources=["SimbodyModel/Proto.lean", "SimbodyModel/ForceLaws.lean", "SimbodyModel/ForceLawsDriver.lean",
             "SimbodyProofs/ForceLaws_lemmas.lean", "SimbodyProofs/C13.lean", "Drivers/C13.lean"],
    lake_targets=["SimbodyProofs.ForceLaws_lemmas"],
    n=dict(quick=600, thorough=30000),
    modes=["c13", "c13contact"],
    rtol=1e-9, atol=1e-12,
    rule="mode c13: TwoPointLinearSpring/Damper/ConstantForce and LinearBushing between random bodies of random trees (Ground, "
         "'same body twice' included for all four); mode c13contact: HuntCrossleyForce (1-4 spheres, multi-contact), "
         "SmoothSphereHalfSpaceForce, ExponentialSpringForce, Hertz contacts of CompliantContactSubsystem (1-4 contacts), "
         "ElasticFoundationForce mesh scenes, CableSpring on a straight path, mesh (elastic foundation generator) and brick contacts "
         "of CompliantContactSubsystem whose contact force carries a moment; the P lines sum force and moment about the Ground "
         "origin over *all* bodies of the contribution (tolerance 1e-11*scale); distinct = distinct input records",
    partial="(i) proved about the executed model and checked on the implementation: TwoPoint spring/damper/constant force, LinearBushing, "
            "HuntCrossley (one contact and whole list), ElasticFoundationForce (one spring), SmoothSphereHalfSpace, ExponentialSpring "
            "(body + Ground), CompliantContactSubsystem's shift of a contact force WITH moment to the two body origins "
            "(compliant_net_wrench_zero; Hertz goes through the model, mesh and brick generators through the P lines only). "
            "(ii) predicate only: CableSpring/CablePath on a straight path (the force application is CablePath's code, C45), the mesh and "
            "brick generators' own resultants. (iii) not covered: cables with obstacles (CableSpan), Force::Custom",
    assumptions=["rotation matrices reported by the implementation are orthonormal (hypothesis IsOrtho of the contact theorems)"],
)
