"""C13 — interaction forces obey Newton's third law (DESIGN.md §5 C13)."""
SPEC = dict(
    prop="C13",
    proof_module="SimbodyProofs.C13",
    harness="ForceLaws",
    sources=["SimbodyModel/Proto.lean", "SimbodyModel/ForceLaws.lean", "SimbodyModel/ForceLawsDriver.lean",
             "SimbodyProofs/ForceLaws_lemmas.lean", "SimbodyProofs/C13.lean", "Drivers/C13.lean"],
    lake_targets=["SimbodyProofs.ForceLaws_lemmas"],
    n=dict(quick=600, thorough=30000),
    modes=["c13", "c13contact"],
    rtol=1e-9, atol=1e-12,
    rule="mode c13: TwoPointLinearSpring/Damper/ConstantForce and LinearBushing between random bodies of random trees (Ground and "
         "'same body twice' included); mode c13contact: HuntCrossleyForce (1-4 spheres, half space), SmoothSphereHalfSpaceForce, "
         "ExponentialSpringForce, Hertz contacts of CompliantContactSubsystem; the P lines sum force and moment about the Ground "
         "origin over *all* bodies of the contribution (tolerance 1e-11*scale); distinct = distinct input records",
    partial="CableSpring/CableSpan and the brick / elastic-foundation generators of CompliantContactSubsystem are covered only by the "
            "generic theorem compliant_net_wrench_zero (the shift of a contact force to the two body origins) and not exercised by "
            "the harness; ElasticFoundationForce is exercised in C37's stream with the same third-law theorem (ef_net_wrench_zero)",
    assumptions=["rotation matrices reported by the implementation are orthonormal (hypothesis IsOrtho of the contact theorems)"],
)
