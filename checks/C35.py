"""C35 — collision detection reports exactly the overlapping pairs (DESIGN.md §5 C35)."""
SPEC = dict(
    prop="C35",
    proof_module="SimbodyProofs.C35",
    sources=["SimbodyModel/Proto.lean", "SimbodyModel/Geom.lean", "SimbodyModel/C34.lean", "SimbodyModel/C35.lean",
             "SimbodyProofs/C34_lemmas.lean", "SimbodyProofs/C34.lean", "SimbodyProofs/C35_lemmas.lean",
             "SimbodyProofs/C35.lean", "Drivers/C35.lean"],
    n=dict(quick=1500, thorough=40000),
    rtol=1e-9, atol=1e-12,
    modes=["", "degenerate"],
    rule="mode '': random sizes (0.2..2) and random rigid poses for every registered pair of "
         "CollisionDetectionAlgorithm (half space/sphere, sphere/sphere, half space/ellipsoid, ellipsoid/sphere, "
         "ellipsoid/ellipsoid, half space/mesh, sphere/mesh) with the overlap amount drawn on both sides of touching, "
         "plus both add orders through GeneralContactSubsystem; mode 'degenerate': near-touching at +-1e-6 and +-1e-8, "
         "deep / contained / concentric, identity frames, ellipsoid pairs in arbitrary (deep) placement, fixed witnesses; "
         "distinct = distinct input records",
    partial="half space/sphere, sphere/sphere, half space/ellipsoid and the order dispatch are modelled and proved "
            "(contact iff overlap, exact depth/normal/point, swap symmetry, rigid-motion invariance); ConvexConvex "
            "(MPR + Newton; ellipsoid/sphere, ellipsoid/ellipsoid) and the mesh pairs are decided by implementation-side "
            "contract predicates only (point pair on both surfaces, normal alignment, penetration, exact geometry for "
            "ellipsoid/sphere, brute force over faces for meshes); mesh/mesh and the ContactTracker classes are not "
            "exercised; the relative radii of curvature are mirrored by the model but no theorem is claimed about them",
    assumptions=["libm sqrt is trusted (SqrtSpec)", "rotations enter the theorems through orthonormality of rows and columns (IsRot)"],
)
