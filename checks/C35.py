"""C35 — collision detection reports exactly the overlapping pairs (DESIGN.md §5 C35)."""
SPEC = dict(
    prop="C35",
    proof_module="SimbodyProofs.C35",
    sources=["SimbodyModel/Proto.lean", "SimbodyModel/Geom.lean", "SimbodyModel/C34.lean", "SimbodyModel/C35.lean",
             "SimbodyProofs/C34_lemmas.lean", "SimbodyProofs/C34.lean", "SimbodyProofs/C35_lemmas.lean",
             "SimbodyProofs/C35.lean", "Drivers/C35.lean"],
    n=dict(quick=1500, thorough=40000),
    rtol=1e-9, atol=1e-12,
    modes=["", "degenerate"],
    rule="mode '': random sizes (0.2..2) and random rigid poses for every registered pair of "
         "CollisionDetectionAlgorithm (half space/sphere, sphere/sphere, half space/ellipsoid, ellipsoid/sphere, "
         "ellipsoid/ellipsoid, half space/mesh, sphere/mesh) with the overlap amount drawn on both sides of touching, "
         "plus both add orders through GeneralContactSubsystem, the ContactTrackerSubsystem path (hs/sph, sph/sph, hs/ell, "
         "hs/brick), 3-5 surfaces in one contact set, and a surface-placement stream (X_BS identity / translation / rotation / both x "
         "centred / off-centre mesh x sphere / mesh, through GeneralContactSubsystem and ContactTrackerSubsystem, with a coverage "
         "floor); ellipsoid/sphere up to the sphere centre inside the ellipsoid "
         "(class centre_inside); mode 'degenerate': near-touching at +-1e-6 and +-1e-8, "
         "deep / contained / concentric, identity frames, ellipsoid pairs in arbitrary (deep) placement, fixed witnesses; "
         "distinct = distinct input records",
    partial="(i) PROVED about the executed model: half space/sphere, sphere/sphere, half space/ellipsoid "
            "(contact iff overlap, exact depth/normal/point, rigid-motion invariance), sphere/sphere swap, and the order dispatch "
            "`detect` (swap symmetry for hs/sph, sph/sph, hs/ell in both orders; for ellipsoid/sphere and ellipsoid/ellipsoid the "
            "swap theorem is CONDITIONAL on the explicit hypothesis `ConvexContract` about the un-modelled ConvexConvex routine, "
            "which the harness tests and which fails for deep overlaps = known finding). (ii) PREDICATE ONLY (implementation "
            "side, independent reference): ConvexConvex (KKT contract on the reported point pair, sampled separation; exact "
            "depth/normal/point for ellipsoid/sphere only with the centre outside), half space/mesh and sphere/mesh (brute force "
            "over faces, contact object, rigid motion, add order; icosphere/box/torus meshes), the ContactTrackerSubsystem path "
            "for hs/sph, sph/sph, hs/ell, hs/brick (both body placements), several surfaces in one set (pair set, no duplicates). "
            "(iii) NOT COVERED: TriangleMesh/TriangleMesh, ContactTracker::ConvexImplicitPair / HalfSpaceConvexImplicit / mesh "
            "trackers, Contact::Condition bookkeeping across steps; the relative radii of curvature are mirrored by the model "
            "(bit-for-bit tie) but no theorem is claimed about them",
    assumptions=["libm sqrt is trusted (SqrtSpec)", "rotations enter the theorems through orthonormality of rows and columns (IsRot)"],
)
