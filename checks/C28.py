"""C28 — angular-velocity rate helpers are exact derivatives (DESIGN.md §5 C28)."""
SPEC = dict(
    prop="C28",
    proof_module="SimbodyProofs.C28",
    sources=["SimbodyModel/Proto.lean", "SimbodyModel/Spatial.lean", "SimbodyModel/C28.lean",
             "SimbodyProofs/Spatial.lean", "SimbodyProofs/C28.lean", "Drivers/C28.lean"],
    n=dict(quick=1500, thorough=150000),
    rtol=1e-9, atol=1e-12,
    rule="cases from VERIF_SEED by harness/C28.cpp; each case exercises every static helper of Rotation_<double> "
         "(3/4 of the cases) or Rotation_<float>: body-fixed XYZ angles with |cos q1| >= 0.2 (generic) or within "
         "1e-1..1e-4 of the singularity (tolerances scaled by the conditioning 1/|cos q1|, first power only); guaranteed shares: "
         "50 % generic Euler, 10 % near-singular, 20 % unit quaternions, 20 % un-normalised quaternions (|q| in 0.3..3); one "
         "case in five has zero components in w / wdot / qdot; angular velocities / accelerations / rates of magnitude 0.1..10; "
         "distinct = distinct input records",
    partial=None,
    assumptions=[
        "time derivatives are taken with jets K[eps]/(eps^2); the lift of a trig pair (c,s) moving at rate qd is "
        "(c - eps*s*qd, s + eps*c*qd) (the definition of the derivative of cos/sin, DESIGN §3.6)",
        "'R(t) moves with angular velocity w' is read as Rdot = [w]x R (w in the parent) / Rdot = R [w]x (w in the body)",
        "the quaternion theorems need 2 != 0 in the field (the helpers halve and double)",
        "the implementation-side finite-difference predicates (double, generic class only) use h = 1e-5 with bounds 2e-8 * conditioning^3 (x10 for second derivatives)",
    ],
)
