"""C19 — integrators honour the step / report / final-time contract (DESIGN.md §5 C19)."""
SPEC = dict(
    prop="C19",
    proof_module="SimbodyProofs.C19",
    sources=["SimbodyModel/Proto.lean", "SimbodyModel/C19.lean", "SimbodyProofs/C19_lemmas.lean",
             "SimbodyProofs/C19.lean", "Drivers/C19.lean", "SimbodyModel/C22.lean", "SimbodyProofs/C22.lean"],
    n=dict(quick=400, thorough=20000),
    rtol=0.0, atol=0.0,
    modes=["", "directed"],
    flow="harness_first",
    rule="one record = one session: a MultibodySystem (1-dof oscillator / 2-link pendulum, 0-3 witness functions), one of the "
         "10 integrators (RungeKuttaMerson/Feldberg/3/2, Verlet, ExplicitEuler, SemiExplicitEuler, SemiExplicitEuler2, CPodes BDF/Adams), "
         "random options (final time incl. == start, return-every-step, step limit, interpolation off, fixed step, accuracy) and 6-30 "
         "random LEGAL requests (report == now / == advanced time / inside the last step / == final / beyond final / infinite, "
         "scheduled == advanced time / == report / == final, stepBy, reinitialize after event-type returns, termination); "
         "mode 'directed' = the two directed scenarios of notes/C19.md; distinct = distinct session records",
    partial="CPodesIntegratorRep::stepTo (separate implementation around the vendored CPODES) is not modelled: for the two CPodes "
            "variants only the property's predicates are evaluated on the implementation (P lines); the oracle answers of "
            "intermediate internal steps of one stepTo call are not observable through the public API and are supplied by the driver "
            "(any values below the pending stops; the model's result does not depend on them) — notes/C19_hook_stepmachine.diff "
            "proposes the trace hook that would expose them",
    assumptions=[
        "takeOneStep is an oracle constrained by its contract ansOK (t0 < t1 <= tMax, window inside the step, report time not strictly inside the window); an answer violating it is reported as TAKEONESTEP_CONTRACT_VIOLATED by the driver",
        "legal request = the two asserts of stepTo (report >= getTime(), scheduled >= getTime()) plus: a scheduled time behind the advanced state is not earlier than the report time (TimeStepper passes min(nextScheduledEvent, t) with nextScheduledEvent beyond the advanced time, so this holds for it; the direct-API violation is generated as class schedBehindAdvanced); reinitialize only after ReachedEventTrigger / ReachedScheduledEvent / TimeHasAdvanced returns",
        "times are compared exactly (doubles read as rationals, +inf as 2^1024); the model uses only comparisons and min",
    ],
)
