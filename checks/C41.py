"""C41 — Function objects, splines and smooth steps are self-consistent (DESIGN.md §5 C41)."""
SPEC = dict(
    prop="C41",
    proof_module="SimbodyProofs.C41",
    sources=["SimbodyModel/Proto.lean", "SimbodyModel/C41.lean", "SimbodyProofs/C41_lemmas.lean",
             "SimbodyProofs/C41.lean", "Drivers/C41.lean"],
    n=dict(quick=600, thorough=40000),
    rtol=1e-9, atol=1e-12,
    rule="random stepUp/stepAny arguments (ends, near ends, interior), Function_::Step over Real and Vec3 inside/outside "
         "the switching interval in both orientations, Constant/Linear/Polynomial (degree 0..8, every derivative order up to "
         "degree+2)/Sinusoid (orders 0..11) parameters, interpolating splines of degree 1,3,5,7 over Real and Vec3 with random "
         "knots (every derivative order 0..degree+1 at knots, interior points and both ends); distinct = distinct input records",
    partial="spline fitting (vendored GCVSPL gcvspl_) is not modelled: interpolation through the control points, continuity of "
            "derivatives up to degree-1 across knots and derivative-vs-finite-difference consistency are implementation-side "
            "predicates; the evaluation routine SimTK_splder_/search_ is modelled statement by statement and tied by "
            "correspondence but only its order>=2m clause is a theorem; BicubicSurface is not covered",
    assumptions=["libm sin/cos/pow are trusted; the sinusoid theorems use the trig-pair derivative convention (DESIGN.md §3 item 6)",
                 "derivative statements are formal (Mathlib Polynomial.derivative of the model run over K[X])"],
)
