"""C41 — Function objects, splines and smooth steps are self-consistent (DESIGN.md §5 C41)."""
SPEC = dict(
    prop="C41",
    proof_module="SimbodyProofs.C41",
    sources=["SimbodyModel/Proto.lean", "SimbodyModel/C41.lean", "SimbodyProofs/C41_lemmas.lean",
             "SimbodyProofs/C41.lean", "Drivers/C41.lean"],
    n=dict(quick=600, thorough=40000),
    rtol=1e-9, atol=1e-12,
    rule="random stepUp/stepAny arguments (ends, near ends, interior), Function_::Step over Real and Vec3 inside/outside "
         "the switching interval in both orientations, Constant/Linear/Polynomial (degree 0..8, every derivative order up to "
         "degree+2)/Sinusoid (orders 0..11) parameters; splines of degree 1,3,5,7 over Real and Vec3 from all five SplineFitter "
         "entry points (interpolating, fixed smoothing parameter, GCV, error variance, residual dof) on six knot layouts "
         "(uniform, random, one long last / first interval, geometrically growing / shrinking; mesh ratio up to 400:1), every "
         "derivative order 0..degree+1 at knots, interior points, early in the last and late in the first interval; "
         "BicubicSurface/BicubicFunction on regular and irregular grids (predicate-only); every fit mode, every graded layout "
         "and two bicubic surfaces are generated at least once per run; coverage floor P-lines; distinct = distinct input records",
    partial="(i) proved about the executed model: every Constant/Linear/Polynomial/Sinusoid derivative clause and every Step/"
            "stepUp/stepDown/stepAny clause (formal derivatives of the same code over K[X]; order facts over any ordered field); for "
            "splines only instance theorems: the executed evaluator splderAt run over a computable polynomial type is, for linear "
            "(knots 0,1,3) and cubic (knots 0,1,3,4,6) splines, every coefficient basis vector and every interval, a chain of formal "
            "derivatives, C^(degree-1) across knots, natural at the ends (kernel-checked). "
            "(ii) predicate-only: for general knots/degrees 'spline derivatives are the derivatives of the value' (exact "
            "differentiation of the polynomial through degree+1 samples per interval; no allowance from the implementation's own "
            "derivatives), continuity across knots (one-sided polynomial extrapolation), interpolation through the control points "
            "(the fitting routine gcvspl_ is not modelled); BicubicFunction value/partials up to order 3/C2/symmetry (no model). "
            "(iii) not covered: the GCVSPL fitting algorithm itself, Spline_ outside the knot range (GCVSPLUtil::splder asserts "
            "x[0]<=t<=x[n-1]: not a legal call), degree > 7, BicubicSurface PatchHint reuse and explicit-derivative constructors, "
            "Function_<T> for T other than Real (Step/Spline also Vec3)",
    assumptions=["libm sin/cos/pow are trusted; the sinusoid theorems use the trig-pair derivative convention (DESIGN.md §3 item 6)",
                 "derivative statements are formal (Mathlib Polynomial.derivative of the model run over K[X])"],
)
