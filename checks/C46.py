"""C46 — simulation is deterministic and isolated (DESIGN.md §5 C46).

Translator (SPEC['gen'], run by the pipeline before every lake build): inventory of every writable static-storage
object of the three rebuilt libraries -> lean/SimbodyModel/Gen/Statics.lean.  The theorem
`C46.all_statics_classified` (SimbodyProofs/C46.lean) is then re-checked by the kernel against the binaries as they
are now: a new mutable static that is not in the hand-reviewed allow-list breaks the obligation.
"""
import os, re, subprocess

LIBS = ["libSimTKcommon.so", "libSimTKmath.so", "libSimTKsimbody.so"]
WRITABLE = {".data", ".bss", ".tdata", ".tbss"}          # .data.rel.ro / .got / .dynamic are read-only after relocation
GEN_REL = "SimbodyModel/Gen/Statics.lean"


def collapse_templates(name):
    """Foo<A<B>, C>::bar -> Foo<*>::bar ; 'operator<', 'operator<<', 'operator->' etc. are left alone."""
    out, i, n = [], 0, len(name)
    while i < n:
        c = name[i]
        if c == "<":
            j = len(out)
            prev = "".join(out[max(0, j - 10):j])
            if prev.endswith("operator") or prev.endswith("operator<"):
                out.append(c); i += 1; continue
            depth, k = 0, i
            while k < n:
                if name[k] == "<":
                    depth += 1
                elif name[k] == ">" and name[k - 1] != "-":
                    depth -= 1
                    if depth == 0:
                        break
                k += 1
            out.append("<*>"); i = k + 1
            continue
        out.append(c); i += 1
    return "".join(out)


def normalise(name):
    """stable, reviewable name of the source-level object behind a symbol"""
    name = name.split("@")[0]
    name = name.replace("[abi:cxx11]", "")
    guard = False
    for pre in ("guard variable for ",):
        if name.startswith(pre):
            guard, name = True, name[len(pre):]
    name = collapse_templates(name)
    name = re.sub(r"\.\d+$", ".N", name)                       # GCC numbering of function-local / file-local statics
    name = re.sub(r"\{lambda\(.*?\)#\d+\}", "{lambda}", name)
    name = re.sub(r"\s+", " ", name).strip()
    return guard, name


def inventory(build_dir):
    syms = set()
    for lib in LIBS:
        path = os.path.realpath(os.path.join(build_dir, lib))
        sec = {}
        out = subprocess.run(["readelf", "-SW", path], capture_output=True, text=True, check=True).stdout
        for m in re.finditer(r"^\s*\[\s*(\d+)\]\s+(\S+)\s", out, re.M):
            sec[int(m.group(1))] = m.group(2)
        out = subprocess.run(["readelf", "-sW", path], capture_output=True, text=True, check=True).stdout
        rows, in_symtab = [], False
        for ln in out.split("\n"):
            if ln.startswith("Symbol table"):
                in_symtab = "'.symtab'" in ln
                continue
            if not in_symtab:
                continue
            t = ln.split()
            if len(t) < 8 or not t[0].endswith(":") or not t[6].isdigit():
                continue
            typ, ndx, nm = t[3], int(t[6]), t[7]
            if typ not in ("OBJECT", "TLS"):
                continue
            s = sec.get(ndx, "?")
            if s in WRITABLE:
                rows.append((s, nm))
        dem = subprocess.run(["c++filt"], input="\n".join(r[1] for r in rows), capture_output=True, text=True, check=True).stdout.split("\n")
        for (s, _), d in zip(rows, dem):
            guard, name = normalise(d)
            syms.add((lib.replace(".so", ""), s, guard, name))
    # emit in allow-list order (unknown names last) so that the Lean-side check is one linear walk; the order has
    # no influence on soundness (SimbodyProofs/C46.lean: check_sound), only on the cost of `decide`
    pos = {}
    try:
        from tools import vlib
        txt = open(os.path.join(vlib.LEAN, "SimbodyProofs", "C46.lean")).read()
        for k, m in enumerate(re.finditer(r'\(key!\s*"((?:[^"\\]|\\.)*)",\s*\w+\)', txt)):
            pos.setdefault(m.group(1).replace('\\"', '"').replace("\\\\", "\\"), k)
    except OSError:
        pass
    return sorted(syms, key=lambda t: (pos.get(t[3], 10 ** 9), t[3], t[0], t[1], t[2]))


def leaf_of(name):
    """unqualified identifier of a normalised inventory name: text after the last '::', GCC '.N' suffix dropped"""
    leaf = name.rsplit("::", 1)[-1]
    return re.sub(r"\.N$", "", leaf)


SRC_ROOTS = ["SimTKcommon", "SimTKmath", "Simbody"]
SRC_SKIP = ("/tests", "/examples", "/simbody-visualizer", "/doc", "/pthreads", "/Windows", "/AuxiliaryFiles", "/.git")
_DECL = re.compile(r"^\s*[{};]?\s*static\s+(?:thread_local\s+)?(?!inline\b|struct\b|class\b|void\b|enum\b|union\b)"
                   r"([\w:<>,\s\*&]+?)[\s\*&]+(\w+)\s*(?:\[[^\]]*\]\s*)*(=|;|\{)")


def strip_comments_and_if0(txt):
    txt = re.sub(r"/\*.*?\*/", lambda m: "\n" * m.group(0).count("\n"), txt, flags=re.S)
    txt = re.sub(r"//[^\n]*", "", txt)
    out, depth0, stack = [], 0, []
    for ln in txt.split("\n"):
        t = ln.strip()
        if t.startswith("#if"):
            stack.append(bool(re.match(r"#if\s+0\b", t)) or (stack[-1] if stack else False))
        elif t.startswith("#else") or t.startswith("#elif"):
            if stack and re.match(r"#if", "#if") and not (len(stack) > 1 and stack[-2]):
                stack[-1] = False if stack[-1] else stack[-1]
        elif t.startswith("#endif"):
            if stack:
                stack.pop()
        out.append("" if (stack and stack[-1]) else ln)
    return "\n".join(out)


def source_statics(repo):
    """(file, line, identifier) of every `static` non-const object declaration (function-local, class-level or
    file-level) in the library sources — a regex view of the source, deliberately simple: comments and `#if 0` blocks
    removed, declarations whose type mentions `const`/`constexpr` skipped, functions skipped (a '(' before the name)."""
    found = []
    for root in SRC_ROOTS:
        for d, ds, fs in os.walk(os.path.join(repo, root)):
            ds.sort()
            if any(x in d for x in SRC_SKIP):
                continue
            for f in sorted(fs):
                if not f.endswith((".cpp", ".h", ".c", ".hpp", ".cc")):
                    continue
                path = os.path.join(d, f)
                try:
                    txt = strip_comments_and_if0(open(path, errors="replace").read())
                except OSError:
                    continue
                for n, ln in enumerate(txt.split("\n"), 1):
                    m = _DECL.match(ln)
                    if not m:
                        continue
                    typ, ident = m.group(1), m.group(2)
                    if re.search(r"\b(const|constexpr|typedef|friend|return)\b", typ) or "(" in ln[:m.start(2)]:
                        continue
                    found.append((os.path.relpath(path, repo), n, ident))
    return sorted(set((f, i) for f, _, i in found))


def lean_str(s):
    return '"' + s.replace("\\", "\\\\").replace('"', '\\"') + '"'


def gen(ctx):
    from tools import vlib
    syms = inventory(vlib.BUILD)
    lines = ["/- GENERATED on every run by checks/C46.py (translator, DESIGN.md §2.4) — do not edit.",
             "   Source: `readelf -sW` (.symtab, OBJECT/TLS symbols in .data/.bss/.tdata/.tbss) of the rebuilt",
             "   libSimTKcommon.so, libSimTKmath.so, libSimTKsimbody.so; names demangled (c++filt) and normalised:",
             "   template arguments collapsed to <*>, `[abi:cxx11]` and symbol versions stripped, GCC `.123` suffixes -> `.N`,",
             "   `guard variable for X` -> entry X with guard := true.  Duplicates removed; emitted in allow-list order. -/",
             "import SimbodyModel.C46",
             "import SimbodyModel.C46_key",
             "namespace C46.Gen",
             "open C46 C46.Sect",
             "def statics : List C46.Sym := ["]
    for k, (lib, s, guard, name) in enumerate(syms):
        lines.append("  ⟨%s, %s, %s, key! %s, key! %s, %s⟩%s" % (lean_str(lib), s.lstrip("."), "true" if guard else "false", lean_str(name),
                                                                  lean_str(leaf_of(name)), lean_str(name), "," if k + 1 < len(syms) else ""))
    srcs = source_statics(vlib.REPO)
    lines += ["]", "",
              "/-- every `static` non-const object declaration found in the library sources (regex view, see checks/C46.py:",
              "source_statics): file, unqualified identifier -/",
              "def sourceStatics : List C46.SrcStatic := ["]
    for k, (f, ident) in enumerate(srcs):
        lines.append("  ⟨%s, key! %s, key! %s, %s⟩%s" % (lean_str(f), lean_str(ident), lean_str(f + ":" + ident), lean_str(ident),
                                                       "," if k + 1 < len(srcs) else ""))
    lines += ["]", "end C46.Gen", ""]
    txt = "\n".join(lines)
    path = os.path.join(vlib.LEAN, GEN_REL)
    os.makedirs(os.path.dirname(path), exist_ok=True)
    old = open(path).read() if os.path.exists(path) else None
    if old != txt:                       # keep the mtime when nothing changed (no needless rebuild)
        with open(path, "w") as f:
            f.write(txt)
    # structural self-check of the extraction (DESIGN §7.6): the anchors every build must contain
    names = {s[3] for s in syms}
    anchors = ["SimTK::Random::RandomImpl::nextSeed", "SimTK::Pi", "SimTK::CollisionDetectionAlgorithm::algorithmMap"]
    missing = [a for a in anchors if a not in names]
    return dict(file=GEN_REL, symbols=len(syms), source_statics=len(srcs), changed=(old != txt), missing_anchors=missing)


SPEC = dict(
    prop="C46",
    proof_module="SimbodyProofs.C46",
    sources=["SimbodyModel/Proto.lean", "SimbodyModel/C46.lean", "SimbodyModel/C46_key.lean", "SimbodyModel/Gen/Statics.lean", "SimbodyProofs/C46.lean",
             "Drivers/C46.lean"],
    lake_targets=["SimbodyModel.Gen.Statics"],
    gen=gen,
    flow="harness_first",
    # --n = number of repeat scenarios = number of interleave scenarios; fork scenarios = n/4 + 2; aux scenarios = n/4 + 3
    n=dict(quick=40, thorough=1000),
    rtol=0.0, atol=0.0,
    rule="scenario kinds: repeat (same simulation twice in one process with nothing / unrelated simulations / geometry, un-seeded "
         "Random, optimizer, XML, root finder, graph maker in between), interleave (three live simulations advanced report by report "
         "in a random schedule vs each one alone), fork (fresh process: simulation first vs after unrelated work), aux (Assembler with the "
         "default calcGoal() and its shared static Vector, IPOPT, seeded CMA-ES: same call before/after another instance + unrelated work); 5 models (pendulum, "
         "free tree with springs, rod-constrained loop, compliant contact with ContactTrackerSubsystem, HuntCrossleyForce on "
         "GeneralContactSubsystem) x 8 integrators (RKMerson, RKFeldberg, RK3, RK2, Verlet, ExplicitEuler, CPodes, SemiExplicitEuler2), "
         "force evaluation single-threaded; at every report time t, y=(q,u,z) and udot (realized through Acceleration) compared bit for bit; "
         "floors: P progressed (every scenario must get past t=0) and P dead_share <= 0.05 (measured 0.0009); quick covers all 40 model x integrator pairs "
         "in the repeat scenarios; distinct = distinct scenario records",
    partial="(i) proved: every writable static-storage object of the rebuilt binaries has a reviewed class (all_statics_classified), every "
            "static non-const declaration in the sources is in that inventory or a reviewed exception (source_statics_in_inventory), and "
            "the per-role assumptions computed from the allow-list (ClassAssumptions: frozen objects never written, irrelevant objects never "
            "read by a result) imply isolation/repeatability in the process model (interleaving_isolated_by_classes, "
            "repeat_deterministic_by_classes). NOT proved: that the C++ satisfies ClassAssumptions - the class of each object is a hand "
            "review of the source. (ii) predicate only: bitwise repeat / interleave / fork / aux scenarios. (iii) not covered: heap "
            "aliasing between instances, libm/BLAS/OS determinism, multi-threaded force evaluation, the Visualizer, ContactId numbers",
    assumptions=[
        "force evaluation single-threaded (GeneralForceSubsystem::setNumberOfThreads(1)); OpenBLAS/LAPACK and libm are deterministic for equal inputs",
        "the translator (readelf/c++filt, checks/C46.py) lists every OBJECT/TLS symbol in .data/.bss/.tdata/.tbss of the three libraries; "
        "template arguments are collapsed, so all instances of one templated static share one review entry",
        "un-seeded Random generators are excluded from the property (seedCounter class); ContactId numbers (idCounter) may differ between "
        "repetitions and are not compared, only trajectories are",
    ],
)

if __name__ == "__main__":
    import sys
    sys.path.insert(0, os.path.dirname(os.path.dirname(os.path.abspath(__file__))))
    print(gen({}))
