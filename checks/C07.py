"""C07 — constraint errors form a derivative hierarchy with adjoint forces (DESIGN.md §5 C07)."""
SPEC = dict(
    prop="C07",
    proof_module="SimbodyProofs.C07",
    sources=["SimbodyModel/Proto.lean", "SimbodyModel/ConstraintEq.lean", "SimbodyProofs/C07_lemmas.lean",
             "SimbodyProofs/C07.lean", "Drivers/C07.lean"],
    n=dict(quick=760, thorough=19000),
    rtol=1e-9, atol=1e-12,
    rule="case k: constraint type k mod 19 (all built-in types + a Custom one), random tree of 2-6 bodies drawn from 18 "
         "mobilizer types, each reversed with probability 1/4 (random frames, Euler/quaternion; trees with Line mobilizers Euler only), random attachment (Ground+body / ancestor-descendant / "
         "unrelated branches), random VIOLATED state and, when System::project succeeds, the same system on the "
         "manifold; 15 types are compared with the Lean model (perr, verr, aerr at arbitrary udot, constraint forces), "
         "all 19 go through the implementation-only predicates (finite differences, G/Gt/Pq operator identities, "
         "virtual work); distinct = distinct input records",
    partial="clause by clause: (1) verr = d/dt perr and aerr = d/dt verr: PROVED about the executed model per type for Rod, "
            "PointInPlane, PointOnLine, ConstantAngle, ConstantOrientation, PointOnPlaneContact (exact), Ball / Weld (exact relation "
            "the code satisfies + on-manifold corollary: known finding off the manifold), NoSlip1D (exact relation with the missing "
            "term: known finding), CoordinateCoupler (acceleration level, relative to the user Function's Hessian); the "
            "mobility-level types (ConstantCoordinate/Speed/Acceleration, PrescribedMotion, first level of the couplers) are "
            "definitional and only compared; SphereOnPlaneContact, SphereOnSphereContact, LineOnLineContact and Custom are "
            "PREDICATE-ONLY (finite differences on the implementation); (2) Pq = d perr/dq: PREDICATE-ONLY (pq_fd, pq_cols, "
            "pq_N_is_P) - the per-type theorems give d perr along any rigid motion = pverr, the chain through the tree Jacobian "
            "and N is C03/C04; (3) G explicit = O(n) = transpose: PREDICATE-ONLY at system level (g_cols, gt_is_transpose, "
            "gt_mul, g_adjoint, virtual_work); PROVED per type: force_adjoint in the ancestor frame, forces_balance, and for "
            "any ancestor relVel_adjoint / ground_adjoint_two (instantiated: PointInPlane.ground_adjoint, Ball.ground_adjoint): "
            "forces re-expressed in Ground on the constrained bodies only are the transpose of the velocity error; the tree "
            "Jacobian J / ~J adjointness is C04.  Model comparison of the mobility-level types only on mobilizers with N = I "
            "(qforce -> ~N qforce and quaternion rows are predicate-only); Rod's singular branch r<TinyReal, ConstantAngle with "
            "parallel axes, coincident sphere centres, parallel LineOnLine edges, Custom mobilizers and quaternion-mode "
            "LineOrientation/FreeLine are not generated; the statement that ~R_GA R_GB turns with w_AB is not proved",
    assumptions=["derivative = eps-part over the dual numbers along rigid motions Rdot=[w]xR, pdot=v (DESIGN §3 item 6)",
                 "libm sqrt / division enter Rod as parameters with r*r = p.p, r != 0, 2 != 0",
                 "user Functions of the coupler constraints are trusted to return their own derivatives"],
)
