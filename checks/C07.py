"""C07 — constraint errors form a derivative hierarchy with adjoint forces (DESIGN.md §5 C07)."""
SPEC = dict(
    prop="C07",
    proof_module="SimbodyProofs.C07",
    sources=["SimbodyModel/Proto.lean", "SimbodyModel/ConstraintEq.lean", "SimbodyProofs/C07_lemmas.lean",
             "SimbodyProofs/C07.lean", "Drivers/C07.lean"],
    n=dict(quick=760, thorough=19000),
    rtol=1e-9, atol=1e-12,
    rule="case k: constraint type k mod 19 (all built-in types + a Custom one), random tree of 2-6 bodies drawn from 13 "
         "mobilizer types (random frames, Euler/quaternion), random attachment (Ground+body / ancestor-descendant / "
         "unrelated branches), random VIOLATED state and, when System::project succeeds, the same system on the "
         "manifold; 15 types are compared with the Lean model (perr, verr, aerr at arbitrary udot, constraint forces), "
         "all 19 go through the implementation-only predicates (finite differences, G/Gt/Pq operator identities, "
         "virtual work); distinct = distinct input records",
    partial="proved per type for Rod, Ball, Weld, PointInPlane, PointOnLine, ConstantAngle, ConstantOrientation, NoSlip1D, "
            "PointOnPlaneContact, ConstantCoordinate/Speed/Acceleration, PrescribedMotion, Coordinate/SpeedCoupler "
            "(relative to the user Function's derivatives); SphereOnPlaneContact, SphereOnSphereContact, "
            "LineOnLineContact and Custom are correspondence-only (finite-difference and adjoint predicates on the "
            "implementation); the Ground->Ancestor conversion and the tree Jacobian J are tied by correspondence "
            "(J itself is C04); Rod's singular branch r<TinyReal is not generated",
    assumptions=["derivative = eps-part over the dual numbers along rigid motions Rdot=[w]xR, pdot=v (DESIGN §3 item 6)",
                 "libm sqrt / division enter Rod as parameters with r*r = p.p, r != 0, 2 != 0",
                 "user Functions of the coupler constraints are trusted to return their own derivatives"],
)
