"""C39 — optimizers return truthful, feasible, improving results (DESIGN.md §5 C39)."""
SPEC = dict(
    prop="C39",
    proof_module="SimbodyProofs.C39",
    sources=["SimbodyModel/Proto.lean", "SimbodyModel/C39.lean", "SimbodyProofs/C39_lemmas.lean",
             "SimbodyProofs/C39.lean", "Drivers/C39.lean"],
    n=dict(quick=300, thorough=3000),
    rtol=0.0, atol=0.0,
    rule="64 exhaustive selection records (8 requested algorithms x nEq x nIneq x hasLimits) + n optimisation runs from "
         "VERIF_SEED: designed strictly convex quadratics (A=LL'+I, KKT certificate in the record) unconstrained / boxed "
         "(all four bound kinds, active bounds) / linear equality+inequality rows, Rosenbrock-like, dimension 1..8 "
         "(thorough 1..20); LBFGS, LBFGSB, InteriorPoint, CMAES (fixed seed), BestAvailable, CFSQP fallback; analytic and "
         "numerical (forward/central) gradients and Jacobians; feasible and infeasible starts; 1/12 of the gradient runs forced to "
         "fail (IPOPT maxIterations=2, wrong-sign gradient for L-BFGS(-B)) to exercise the exception path; every fourth case a limits-"
         "lattice case (LBFGSB / InteriorPoint / CMAES / BestAvailable x dimension 2, 5, 9..16 x start interior / face / edge / corner, "
         "limits two-sided / one-sided / mixed / some infinite, optimum interior / on the boundary; CMA-ES with a 40-iteration budget), "
         "cell = function of (seed, index); distinct = distinct records",
    partial="(i) proved about simbody's own code, executed by the driver and tied exhaustively/exactly: the constructOptimizerRep "
            "selection table + constructor dimension checks (9 theorems), simbody's L-BFGS termination test (lbfgs_stop_gradnorm, "
            "lbfgs_stop_distance: checked to hold at every returned LBFGS point and giving the one PROVED distance constant), the "
            "Differentiator step (stepH_exact/pos); mathematics used by the contract: grad_cert(_gram), kkt_optimal/kkt_unique (the "
            "designed optimum really is the unique minimiser), quad_gap.  (ii) predicate-only (exact-rational contract C39.accept + "
            "harness predicates; the *_sound / accept_iff / contract_sound / within_bounds_all theorems are unfoldings saying the "
            "checker checks what it says and constrain no optimizer): returned f = f(x); descent methods not worse than start; limits "
            "honoured by evaluations and result; IPOPT feasibility within ctol; unique minimiser within tolerance (LBFGSB constant "
            "derived from a measured objective-gap bound, IPOPT/CMA-ES constants measured; an error of 1e-3 in the returned optimum is "
            "detectable only in the tight-tolerance third of the runs); CMA-ES reproducibility (two runs in one process, documented "
            "precondition maxTimeFractionForEigendecomposition=1); which user virtuals the numerical-derivative wrappers call (the "
            "numgrad/numjac_calls_differentiator theorems are about a literal list model).  When the optimizer throws, only limits on "
            "evaluations / on the vector left behind and 'descent method leaves no worse point' are checked; a floor predicate requires "
            ">= 90 % of the non-forced runs per algorithm to return.  (iii) not covered: the vendored algorithms themselves (lbfgs, "
            "lbfgsb, IPOPT, c-cmaes); nonlinear constraints; IPOPT advanced options; limited-memory history other than 20; dimension "
            "9..20 only in the thorough tier; IPOPT evaluations are held to its documented bounds_relax_factor 1e-8 and not claimed for an "
            "infeasible user start",
    assumptions=["the harness's OptimizerSystem logs every point it is asked to evaluate (component-wise envelope over all, "
                 "first 400 points verbatim)",
                 "CMA-ES reproducibility is checked under the documented precondition maxTimeFractionForEigendecomposition=1"],
)
