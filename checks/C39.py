"""C39 — optimizers return truthful, feasible, improving results (DESIGN.md §5 C39)."""
SPEC = dict(
    prop="C39",
    proof_module="SimbodyProofs.C39",
    sources=["SimbodyModel/Proto.lean", "SimbodyModel/C39.lean", "SimbodyProofs/C39_lemmas.lean",
             "SimbodyProofs/C39.lean", "Drivers/C39.lean"],
    n=dict(quick=300, thorough=3000),
    rtol=0.0, atol=0.0,
    rule="64 exhaustive selection records (8 requested algorithms x nEq x nIneq x hasLimits) + n optimisation runs from "
         "VERIF_SEED: designed strictly convex quadratics (A=LL'+I, KKT certificate in the record) unconstrained / boxed "
         "(all four bound kinds, active bounds) / linear equality+inequality rows, Rosenbrock-like, dimension 1..8 "
         "(thorough 1..20); LBFGS, LBFGSB, InteriorPoint, CMAES (fixed seed), BestAvailable, CFSQP fallback; analytic and "
         "numerical (forward/central) gradients and Jacobians; feasible and infeasible starts; distinct = distinct records",
    partial="the optimisation algorithms (lbfgs, lbfgsb, IPOPT, c-cmaes) are vendored and not modelled: their results are "
            "decided by the exact-rational acceptance contract (C39.accept, proved sound) and by the implementation-side "
            "predicates; modelled and tied exactly: constructOptimizerRep selection table, constructor dimension checks, "
            "which user virtuals the numerical-derivative wrappers call, the Differentiator stencil (bit-exact blocks in "
            "the evaluation log), simbody's L-BFGS termination test; 'within the convergence tolerance' is given a "
            "per-algorithm meaning (proved constant for LBFGS, measured constants for LBFGSB/IPOPT/CMAES, see notes/C39.md); "
            "IPOPT evaluations are held to its documented bounds_relax_factor 1e-8 and are not claimed for an infeasible start",
    assumptions=["the harness's OptimizerSystem logs every point it is asked to evaluate (component-wise envelope over all, "
                 "first 400 points verbatim)",
                 "CMA-ES reproducibility is checked under the documented precondition maxTimeFractionForEigendecomposition=1"],
)
