"""C24 — matrix factorizations solve what they claim (DESIGN.md §5 C24)."""
SPEC = dict(
    prop="C24",
    proof_module="SimbodyProofs.C24",
    sources=["SimbodyModel/Proto.lean", "SimbodyModel/C24.lean", "SimbodyProofs/C24_lemmas.lean", "SimbodyProofs/C24.lean",
             "Drivers/C24.lean"],
    n=dict(quick=400, thorough=6000),
    rtol=1e-9, atol=1e-12,
    rule="random matrices of sizes 1..12 plus a guaranteed share of 13..40 (thorough: 1..40), float and double: generic, nearly "
         "singular, graded singular values, small-integer, SPD, exactly rank-deficient small-integer products, numerically "
         "rank-deficient (noise below a user rcond), tall / wide / square, |A| or |b| near under/overflow, negator<> element "
         "types; vector right-hand sides and Matrix right-hand sides (LU, LLT square; QTZ, SVD tall, square and wide x 1, 2, 3-5 columns, "
         "each column judged separately and against the single-vector solve; every class in every run), repeated solves, refactorisation (LU, LLT, QTZ, SVD), inverses (LU, LLT, QTZ, "
         "SVD) and pseudo-inverses (QTZ, SVD); eigen: general, symmetric-valued, repeated, defective, small-scale; complex<double> "
         "LU and SVD solves through the real embedding; API-behaviour cases; default rcond through the rank / truncation of "
         "diag(1,t,0..) of random shapes; every record is judged by the exact-rational contract in the Lean driver and by the "
         "same predicate in long double; coverage floors per family; distinct = distinct input records",
    partial="NO clause is 'proved about the implementation': LAPACK/OpenBLAS are not modelled.  (i) proved: what the statements "
            "mean for exact arithmetic (unique solution of an invertible system; normal equations + range(A^T) <=> unique "
            "minimum-norm least-squares solution; the rank-by-threshold rule is a prefix rule) - these theorems are NOT linked "
            "to contract acceptance by any theorem.  (ii) predicate / exact-rational contract only: LU, LLT, QTZ, SVD solve "
            "residuals; normal equations; minimum norm against an exact null basis that is certified at run time (each vector "
            "exactly in the kernel, unit pattern, count + rank = n, rank A = rank A^T, agreement with the rank QTZ reports) but "
            "whose generator (rref) is not proved correct; SVD factorisation (real types); eigenpairs of real general matrices "
            "incl. spectrum completeness by power sums; inverses and pseudo-inverses; QTZ's condition estimate within 4x of "
            "sigma_r/sigma_1 taken from FactorSVD; default and user rcond through rank decisions.  (iii) not covered / masked: "
            "'correct numerical rank' of FactorSVD::getRank is permanently masked by the known finding "
            "svd.getRank.always_zero (the rank rule is only checked on the returned singular values); ordered eigenvalues for "
            "symmetric input (no symmetric path exists - known finding); complex QTZ / Eigen (known findings), complex<float>, "
            "conjugate<> element types, complex LLT / SVD factors; determinants (no API)",
    assumptions=["tolerances are c*n*eps with c = 16 (LU/LLT solve), 32 (LS, SVD, LU inverse), 64 (LLT inverse), 128 (eigen, QTZ/SVD "
                 "square solves), 256+ (pseudo-inverse, graded inverses); worst measured 0.05 of the bound"],
)
