"""C24 — matrix factorizations solve what they claim (DESIGN.md §5 C24)."""
SPEC = dict(
    prop="C24",
    proof_module="SimbodyProofs.C24",
    sources=["SimbodyModel/Proto.lean", "SimbodyModel/C24.lean", "SimbodyProofs/C24.lean", "Drivers/C24.lean"],
    n=dict(quick=400, thorough=6000),
    rtol=1e-9, atol=1e-12,
    rule="random matrices of sizes 1..12 (thorough: 1..40), float and double: generic, nearly singular (one row almost a "
         "combination of two others), small-integer, SPD, exactly rank-deficient small-integer products, tall / wide / square; "
         "vector and matrix right-hand sides, repeated solves, refactorisation of the same object, inverses; complex<double> "
         "LU and SVD solves through the real embedding; API-behaviour cases (zero sizes, complex QTZ/Eigen, default rcond "
         "through the rank of diag(1,t)); every record is judged by the exact-rational contract in the Lean driver and by the "
         "same predicate in long double; distinct = distinct input records",
    partial="LAPACK/OpenBLAS are not modelled: the check is acceptance of the returned doubles by exact-rational contracts "
            "(backward-error residuals, normal equations, orthogonality to the exact null space, exact rank, A = U S V', "
            "A v = lambda v, A X = X A = I) whose soundness and meaning are theorems; determinants are not offered by the API; "
            "the symmetric (syev) eigen path is unreachable through the public API and is not exercised",
    assumptions=["tolerances are c*n*eps with c = 64..1024 (measured margins in notes/C24.md)"],
)
