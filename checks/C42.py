"""C42 — MultibodyGraphMaker always produces a valid spanning tree (DESIGN.md §5 C42)."""
SPEC = dict(
    prop="C42",
    proof_module="SimbodyProofs.C42",
    sources=["SimbodyModel/Proto.lean", "SimbodyModel/C42.lean", "Drivers/C42.lean",
             "SimbodyProofs/C42_defs.lean", "SimbodyProofs/C42_lemmas.lean", "SimbodyProofs/C42_inv.lean",
             "SimbodyProofs/C42_grow.lean", "SimbodyProofs/C42_grow2.lean", "SimbodyProofs/C42_outer.lean",
             "SimbodyProofs/C42_break.lean", "SimbodyProofs/C42_term.lean", "SimbodyProofs/C42_base.lean",
             "SimbodyProofs/C42.lean"],
    flow="harness_first",
    modes=["exh", "sample", ""],
    # --n is the number of cases of the 'sample' and random modes; 'exh' enumerates its whole space
    # (quick: 5542 graphs, thorough (n >= 20000): 88413 graphs)
    n=dict(quick=2500, thorough=120000),
    rtol=0.0, atol=0.0,
    rule="mode exh: EVERY graph with <= 2 input bodies (+Ground) and <= 2 joints (quick: (<=2 bodies, <=1 joint) or (1 body, <=2 joints)) "
         "over mass in {0,1} x mustBeBase x 4 behaviourally distinct joint types (weld, pin, ball, fixed-without-loop-weld) x mustBeLoop "
         "x every ordered pair of bodies incl. Ground as child and parent == child (self-joints: against the documentation but accepted by "
         "addJoint); mode sample: uniform samples of the same kind of space up to 4 input "
         "bodies / 5 joints (the full <=4 bodies x <=4 joints space has ~1e10 graphs and is sampled, not enumerated); default mode: random "
         "graphs with up to 30 bodies (chains, stars, trees, trees+loops, several components without Ground joint, dense) with massless "
         "bodies, must-be-loop joints, must-be-base bodies, reversed joints, Ground as child, duplicate connections, occasional self-joints, shuffled joint order; "
         "comparison is exact (every mobilizer, loop constraint, body and joint record); distinct = distinct input graphs",
    partial="clause 'bodies marked as base bodies are honoured' is proved only without massless bodies (base_honoured_partial) and is false "
            "in the implementation otherwise (known finding graph.viaMassless.base_flag); clause 'no massless body with mobilities ends a "
            "branch' is proved for input bodies and is false for slave fragments of massless bodies (known finding "
            "graph.slave.massless_terminal); both clauses are evaluated on the implementation's output for every generated graph",
    assumptions=[
        "body masses are small non-negative integers (exact as doubles); NaN masses are not generated",
        "names never start with '#' (no clash with the names of added base joints)",
        "clause 'base bodies are honoured' is evaluated only for flagged bodies WITHOUT an input joint to Ground (the header says the flag "
        "should not be set otherwise; such cases are only counted by the tag obs.mustBeBase_with_ground_joint_not_base)",
        "'slave welded to its master' = the master/slave bookkeeping (Body::master, Body::slaves, slave mobilizer of the loop joint); the graph "
        "maker emits no weld constraint object, adding the weld is the caller's job",
        "only generateGraph on a freshly filled object is modelled (deleteBody/deleteJoint/clearGraph are outside the property)",
        "Body::jointsAsChild of slave bodies and the user reference pointers of joint types are not compared",
    ],
)
