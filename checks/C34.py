"""C34 — contact surface queries are geometrically correct (DESIGN.md §5 C34)."""
SPEC = dict(
    prop="C34",
    proof_module="SimbodyProofs.C34",
    lake_targets=["SimbodyProofs.C34_nonvacuity"],
    sources=["SimbodyModel/Proto.lean", "SimbodyModel/Geom.lean", "SimbodyModel/C34.lean",
             "SimbodyProofs/C34_lemmas.lean", "SimbodyProofs/C34.lean", "SimbodyProofs/C34_nonvacuity.lean",
             "Drivers/C34.lean"],
    n=dict(quick=1500, thorough=60000),
    rtol=1e-9, atol=1e-12,
    modes=["", "degenerate"],
    rule="mode '': random shape parameters (radii/half lengths in [0.3,3]) x query kind (nearest point, value/gradient/"
         "Hessian, ray, support point, bounding sphere, curvature) x shape (half space, sphere, cylinder, ellipsoid, torus, "
         "brick=Geo::Box, smooth height map) from VERIF_SEED, query points with every coordinate away from 0; "
         "mode 'degenerate': named witnesses (centre, axes, symmetry planes inside/outside the evolute, on-surface, "
         "coincident radii, spheroids on axis / in the equatorial plane, parallel / nearly parallel / tangent rays, torus centre "
         "circle, box ties, objects resized through their setters = class after_setter) x n/200 random parameter sets with "
         "randomly permuted ellipsoid axes; "
         "distinct = distinct input records",
    partial="(i) PROVED about the executed model: value/gradient/Hessian (jets) for half space, sphere, cylinder, ellipsoid, "
            "torus; nearest point on the surface and nearest for half space, sphere, cylinder, box, ellipsoid (given the root "
            "and the guard t + a_i^2 > 0, which is derived for the largest real root of a generic query: "
            "Ell.largest_root_guarded / nearest_correct_generic), torus on the surface (generic branch); inside flags; unit "
            "normal of the ellipsoid query; support points; bounding spheres; ray first hit for half space, sphere, ellipsoid "
            "(distance and hit point; the returned normal is not constrained by the theorems); sphere curvature 1/r. "
            "(ii) PREDICATE ONLY: that the library's Jenkins-Traub root is the largest real root (not modelled; the driver "
            "brackets the root of the model's own degree-6 polynomial; exact_distance enumerates all KKT candidates in long "
            "double in every class), ellipsoid non-generic classes, torus minimality and z-axis branch, Cyl.ray (no theorem), "
            "all ray normals, curvature consistency (curvInDir vs Hessian, Gauss = k1 k2, findParaboloidAtPoint, "
            "calcSurfacePrincipalCurvatures), smooth height map (BicubicSurface). (iii) NOT COVERED: triangle meshes (C36), "
            "HalfSpace/Cylinder::getBoundingSphere, projectDownhillToNearestPoint, Geo::Box_<float>. On the known F5 / "
            "parallel-axis records the Float model (0/0 = NaN; `0 < b` test) and the library differ; they are reported "
            "through their failing predicates",
    assumptions=["libm sqrt is trusted: the model takes sqrt as a parameter with SqrtSpec (satisfied by Real.sqrt, "
                 "SimbodyProofs/C34_nonvacuity.lean)",
                 "jet lift of sqrt (chain rule) is a definition (DESIGN.md section 3 item 6)",
                 "ContactGeometry::Brick::findNearestPoint/intersectsRay are unimplemented in the code; the brick is "
                 "checked through a Geo::Box built from the same half lengths and through calcSupportPoint/getBoundingSphere"],
)
