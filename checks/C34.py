"""C34 — contact surface queries are geometrically correct (DESIGN.md §5 C34)."""
SPEC = dict(
    prop="C34",
    proof_module="SimbodyProofs.C34",
    lake_targets=["SimbodyProofs.C34_nonvacuity"],
    sources=["SimbodyModel/Proto.lean", "SimbodyModel/Geom.lean", "SimbodyModel/C34.lean",
             "SimbodyProofs/C34_lemmas.lean", "SimbodyProofs/C34.lean", "SimbodyProofs/C34_nonvacuity.lean",
             "Drivers/C34.lean"],
    n=dict(quick=1500, thorough=60000),
    rtol=1e-9, atol=1e-12,
    modes=["", "degenerate"],
    rule="mode '': random shape parameters (radii/half lengths in [0.3,3]) x query kind (nearest point, value/gradient/"
         "Hessian, ray, support point, bounding sphere, curvature) x shape (half space, sphere, cylinder, ellipsoid, torus, "
         "brick=Geo::Box, smooth height map) from VERIF_SEED, query points with every coordinate away from 0; "
         "mode 'degenerate': named witnesses (centre, axes, symmetry planes inside/outside the evolute, on-surface, "
         "coincident radii, parallel/tangent rays, torus centre circle, box ties) x n/200 random parameter sets; "
         "distinct = distinct input records",
    partial="closed-form shapes are modelled and proved; the ellipsoid's largest real root is taken as an input of the model "
            "(the vendored Jenkins-Traub solver is not modelled; the driver brackets the root of the *model's* degree-6 "
            "polynomial) and the theorems carry the guard t + a_i^2 != 0 (on_surface, KKT) resp. > 0 (global minimality) "
            "which the harness validates per case through the exact-distance predicate; torus minimality, ellipsoid "
            "principal curvatures (findParaboloidAtPoint), calcSurfacePrincipalCurvatures, the smooth height map "
            "(BicubicSurface) and triangle meshes (see C36) are decided by implementation-side predicates only; "
            "cylinder/ellipsoid ray theorems are not stated (sphere and half space are)",
    assumptions=["libm sqrt is trusted: the model takes sqrt as a parameter with SqrtSpec (satisfied by Real.sqrt, "
                 "SimbodyProofs/C34_nonvacuity.lean)",
                 "jet lift of sqrt (chain rule) is a definition (DESIGN.md section 3 item 6)",
                 "ContactGeometry::Brick::findNearestPoint/intersectsRay are unimplemented in the code; the brick is "
                 "checked through the Geo::Box it exposes (getGeoBox) and through calcSupportPoint/getBoundingSphere"],
)
