"""C44 — impulse solvers return impulses satisfying contact conditions (DESIGN.md §5 C44)."""
SPEC = dict(
    prop="C44",
    proof_module="SimbodyProofs.C44",
    sources=["SimbodyModel/Proto.lean", "SimbodyModel/C44.lean", "SimbodyProofs/C44_lemmas.lean", "SimbodyProofs/C44.lean",
             "Drivers/C44.lean"],
    n=dict(quick=300, thorough=20000),
    rtol=1e-9, atol=1e-12,
    rule="random impulse problems: SPD A = B B^T + 0.2 I (m up to 16 quick / 40 thorough), D >= 0 (zero for PLUS), unconditional "
         "groups of 1-3 rows, unilateral contacts (Observing/Known/Participating, with and without friction, both sign "
         "conventions), bounded, state-limited and constraint-limited friction rows, non-participating rows, expansion impulses, "
         "applied-impulse term, tolerances 1e-3..1e-10 and iteration limits 1..1000 (converged and non-converged runs); "
         "PGS solve + solveBilateral compared with the model, PLUS judged by predicates + the exact-rational contract; "
         "3 corpus cases (PLUS Newton gives up); distinct = distinct input records",
    partial="PLUSImpulseSolver (Newton / active-set search, sliding intervals) is not modelled: it is decided by the "
            "implementation-side predicates and the exact-rational acceptance contract (plusAccept_sound) only; PLUS is "
            "exercised with D = 0 (its Newton matrix ignores D, marked TODO in the source; the only caller passes D = 0) and "
            "without bounded / state-limited / constraint-limited / unilateral-speed rows (unimplemented TODOs in the source, "
            "an out-of-range access for bounded rows); UniSpeedRT rows are ignored by PGS as well",
    assumptions=["sqrt is a parameter with its algebraic specification (SqrtSpec); libm trusted",
                 "row sets of different constraints are disjoint and in range (WellFormed) - the caller's obligation"],
)
