"""C44 — impulse solvers return impulses satisfying contact conditions (DESIGN.md §5 C44)."""
SPEC = dict(
    prop="C44",
    proof_module="SimbodyProofs.C44",
    sources=["SimbodyModel/Proto.lean", "SimbodyModel/C44.lean", "SimbodyProofs/C44_lemmas.lean", "SimbodyProofs/C44.lean",
             "Drivers/C44.lean"],
    n=dict(quick=300, thorough=20000),
    rtol=1e-9, atol=1e-12,
    rule="random impulse problems: SPD A = B B^T + 0.2 I (m up to 16 quick / 40 thorough), D >= 0 (zero for PLUS), unconditional "
         "groups of 1-3 rows, unilateral contacts (Observing/Known/Participating, with and without friction, both sign "
         "conventions), bounded, state-limited and constraint-limited friction rows, non-participating rows, expansion impulses, "
         "applied-impulse term, tolerances 1e-3..1e-10 and iteration limits 1..1000 (converged and non-converged runs); "
         "PGS solve + solveBilateral compared with the model, PLUS judged by predicates + the exact-rational contract; "
         "one fixed 2-row PGS record (converged with no enforced row) and a summary record per run: record count agreed with the "
         "driver, coverage floor (>=35% of n PGS solves judged, >=8% judged for complementarity, >=25% PLUS solves judged), forked "
         "PLUS bounded-row demonstration; 4 corpus cases; distinct = distinct input records",
    partial="(i) proved about the executed PGS model (bit-identical tie to PGSImpulseSolver::solve/solveBilateral): unilateral never "
            "pulls, friction inside the cone (limit mu*|pi_N+piE_N|), bounded within bounds, state-/constraint-limited friction, "
            "non-participating rows zero - for the final iterate regardless of convergence (pgsSolve_final_inequalities under "
            "WellFormed); bilateral-only: fixed point <=> [A+D]pi=rhs (bilateral_fixed_point, exact fixed-point form only). "
            "(ii) predicate-only: 'velocities consistent with the reported condition' for PGS (converged runs, tol<=1e-6: active/"
            "rolling rows |verr|<=50*tol*sqrt(p) - measured bound, no theorem; released rows separate and sliding friction along "
            "the slip <=5*tol*sqrt(p)), PGS bilateral residual <=5*tol (theorem bounds only the pre-update residuals), PGS 'opposes "
            "sliding' (same sliding predicate); every PLUS clause (PLUS's Newton/active-set algorithm is not modelled; judged by "
            "predicates + the exact-rational contract plusAccept, whose soundness lemma is an unfolding); PLUS cone (Sliding/"
            "Impending) and opposes-sliding are listed known findings, i.e. currently not enforced for those contacts. "
            "(iii) not covered: PLUS with D != 0 (its Newton matrix ignores D; the only caller passes 0), PLUS with bounded / state-"
            "limited / constraint-limited rows (unimplemented in the source; the bounded case is demonstrated once per run in a "
            "forked child), UniSpeedRT rows (ignored by both solvers), non-converged PGS runs' velocities, PLUS multi-interval "
            "sliding direction, SemiExplicitEulerTimeStepper's assembly of the problems",
    assumptions=["sqrt is a parameter with its algebraic specification (SqrtSpec); libm trusted",
                 "row sets of different constraints are disjoint and in range (WellFormed) - the caller's obligation"],
)
