"""C43 — assembly and fitting results satisfy what they report (DESIGN.md §5 C43)."""
SPEC = dict(
    prop="C43",
    proof_module="SimbodyProofs.C43",
    sources=["SimbodyModel/Proto.lean", "SimbodyModel/C43.lean", "SimbodyProofs/C43.lean", "Drivers/C43.lean"],
    n=dict(quick=60, thorough=1200),
    rtol=1e-9, atol=1e-12,
    rule="random chains/trees of 2..5(6) bodies (pin / slider / universal / ball / free), 40% with a loop constraint "
         "(ball or rod) satisfied at a random reference configuration; ~70% Assembler runs (assemble 70% / track 30%; "
         "Markers and/or OrientationSensors generated from the reachable reference configuration, sometimes noisy / zero "
         "weight / NaN observation; locked mobilizers, locked q's, q ranges that contain or exclude the reference, "
         "sinusoidal prescribed motion; infinity or RMS error norm; tolerance 1e-4..1e-8), 10% ObservedPointFitter, 20% "
         "LocalEnergyMinimizer; each case in a forked child with a time limit; distinct = distinct records",
    partial="the optimizers behind Assembler / ObservedPointFitter / LocalEnergyMinimizer are vendored and not modelled; "
            "modelled and tied exactly: the success / failure / revert / short-circuit logic of assemble() and track() "
            "(predicts success and the returned value bit-exactly from the observed error and goal values), the free-q "
            "partition and ranges, Markers / OrientationSensors goal formulas and the Assembler's weighted sum, the value "
            "ObservedPointFitter returns; the returned states are decided by the exact-rational contract acceptAsm (proved "
            "sound) and the implementation-side predicates; 'goal no worse than at the start' is a theorem for assemble() "
            "from a feasible start and only measured for track() (no revert rule in the code); 'exact goals reach zero' uses "
            "1e-7 (accuracy 1e-6) / 1e-4 (default accuracy 1e-3) and is claimed for starts within 0.12 of the reachable configuration; LocalEnergyMinimizer is covered by its predicate only",
    assumptions=["libm sqrt/acos are trusted (rotation-error angles are exported by the harness from Rotation::convertRotationToAngleAxis)"],
)
