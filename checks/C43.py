"""C43 — assembly and fitting results satisfy what they report (DESIGN.md §5 C43)."""
SPEC = dict(
    prop="C43",
    proof_module="SimbodyProofs.C43",
    sources=["SimbodyModel/Proto.lean", "SimbodyModel/C43.lean", "SimbodyProofs/C43.lean", "Drivers/C43.lean"],
    n=dict(quick=50, thorough=1200),
    rtol=1e-9, atol=1e-12,
    rule="random chains/trees of 2..5(6) bodies (pin / slider / universal / ball / free), 40% with a loop constraint "
         "(ball or rod) satisfied at a random reference configuration; ~70% Assembler runs (assemble 70% / track 30%; "
         "Markers and/or OrientationSensors generated from the reachable reference configuration, sometimes noisy / zero "
         "weight / NaN observation; locked mobilizers, locked q's, q ranges that contain or exclude the reference, "
         "sinusoidal prescribed motion with the incoming q on or OFF its prescribed value; a goal with a wrong-sign gradient "
         "(1/8, forces optimizer exceptions and worse results); a dedicated class (1/12) loop + prescribed-off + wrong-sign "
         "gradient started feasible, which reaches the revert branch after prescribeQ; infinity or RMS error norm; tolerance "
         "1e-4..1e-8), 10% ObservedPointFitter and 20% LocalEnergyMinimizer, each 40% with a loop constraint and 30% with a "
         "mobilizer locked in the State; every fifth case a coordinate-bounds case (restrictQ on 0/1/2/3+ mobilized bodies x all free / "
         "bounded q locked / bounded mobilizer locked / unrestrictQ x target inside / outside the lowest / middle / highest box, bound "
         "active at the solution, assemble() then track()), class = function of (seed, index); one all-NaN-observations case per run; each case in a forked child with a time "
         "limit; every record carries (seed, case index) and --mode replay re-runs the implementation; distinct = distinct records",
    partial="(i) proved about simbody's own code, executed by the driver and tied bit-exactly: the success / failure / revert / "
            "short-circuit logic of assemble() and track() (assemble_ok_cases: complete case analysis; "
            "assemble_ok_held_error_within_tol is a fact about the VARIABLE tolAchieved, which is the measured error of the state left "
            "behind only when the revert rule did not fire (assemble_ok_measured); assemble_ok_not_worse from a feasible start; "
            "track_may_worsen: no such rule in track()), the free-q partition (mem_freeQs, freeQs_sorted), the Markers / "
            "OrientationSensors goal algebra (weightedGoal_nonneg, *_eq_zero_iff) and the value ObservedPointFitter returns (wrms_sq).  "
            "(ii) predicate-only (fresh-State recomputation by the harness + exact-rational contract acceptAsm; contract_sound / "
            "qOK_sound are unfoldings that constrain no optimizer): constraints within tolerance on success; locked / prescribed q's "
            "at their values; ranges (1e-8 relaxation); returned goal = goal of the state; goal not worse (assemble from a feasible "
            "start: also (i) for the decision logic; track: measured only); exactly achievable goals reach <= 1e-7 at accuracy 1e-6 "
            "from starts within 0.12 of the reachable configuration; OPF: returned error = weighted RMS of the returned state, "
            "exact targets fit to 1e-3, qerr <= 1e-4 with a loop, locked q's unchanged; LEM: PE not increased, qerr <= 1e-4 with a "
            "loop, locked q's unchanged.  Floors: >= 70 % of the Assembler cases must report success, >= 70 % of OPF and >= 50 % of "
            "LEM runs must return (a hang or exception is otherwise only a D tag).  (iii) not covered: the vendored optimizers; "
            "prescribed motion for OPF / LEM; the default accuracy 1e-3 is only exercised on inexact goals",
    assumptions=["libm sqrt/acos are trusted (rotation-error angles are exported by the harness from Rotation::convertRotationToAngleAxis)"],
)
