"""C08 — constrained forward dynamics satisfies constraints and Newton's law (DESIGN.md §5 C08)."""
SPEC = dict(
    prop="C08",
    proof_module="SimbodyProofs.C08",
    sources=["SimbodyModel/Proto.lean", "SimbodyModel/C08.lean", "SimbodyProofs/C08.lean", "Drivers/C08.lean"],
    n=dict(quick=150, thorough=3000),
    modes=["", "testcc", "degenerate"],
    rtol=1e-9, atol=1e-12,
    rule="case = random tree (2-6 bodies, 13 mobilizer types), 1-6 constraints drawn from the 19 built-in types + a "
         "homogeneous linear SpeedCoupler, 20% exact duplicates (redundant but consistent), each enabled with prob. 3/4 "
         "(Constraint::disable), gravity + random body/mobility forces, random violated state or (50%) the state projected "
         "onto the manifold; records: loopFD (udot, multipliers vs the Lean model on exported M, G, f, b), power, and the "
         "implementation-only predicates newton / udoterr / disabled / power; mode testcc = TestCustomConstraints::"
         "testSpeedCoupler2 scenario; mode degenerate = two fixed systems whose constraints act between bodies without relative "
         "mobility (finding zeroG.newton); distinct = distinct input records",
    partial="the rank decision of the multiplier solve (LAPACK QTZ with conditioning tolerance m*eps^(3/4)) is not modelled: "
            "pinv is a parameter with the generalized-inverse contract; cases with an ambiguous singular-value gap of G "
            "(1e-12 < s_i/s_1 < 1e-6) are tagged illcond and only Newton's law is checked on them; M^-1 is the exported "
            "dense mass matrix (operator agreement is C01/C02)",
    assumptions=["minv is a linear right inverse of M (C01/C02); pinv satisfies A A+ A = A on range(A)",
                 "consistency of a constraint set is decided independently of the implementation by an SVD of calcG (LAPACK trusted)",
                 "calcConstraintPower = -<~G lambda, u> by virtual work (C07 force_adjoint, C04)"],
)
