"""C08 — constrained forward dynamics satisfies constraints and Newton's law (DESIGN.md §5 C08)."""
SPEC = dict(
    prop="C08",
    proof_module="SimbodyProofs.C08",
    sources=["SimbodyModel/Proto.lean", "SimbodyModel/C08.lean", "SimbodyProofs/C08.lean", "Drivers/C08.lean"],
    n=dict(quick=300, thorough=6000),
    modes=["", "testcc", "degenerate"],
    rtol=1e-9, atol=1e-12,
    rule="case = random tree (2-6 bodies, 18 mobilizer types, reversed with prob. 1/4), 1-6 constraints drawn from the 19 built-in types + a "
         "homogeneous linear SpeedCoupler, 20% exact duplicates and, hung on Welds, geometric redundancy (Ball / PointInPlane at the weld "
         "frame origin, a second Weld through a shifted frame pair), each enabled with prob. 3/4 "
         "(Constraint::disable), gravity + random body/mobility forces, random violated state or (50%) the state projected "
         "onto the manifold; records: loopFD (udot, multipliers vs the Lean model on exported M, G, f, b), power, and the "
         "implementation-only predicates newton / udoterr / disabled / power; mode testcc = TestCustomConstraints::"
         "testSpeedCoupler2 scenario; mode degenerate = two fixed systems whose constraints act between bodies without relative "
         "mobility (finding zeroG.newton); distinct = distinct input records",
    partial="clause by clause: (1) acceleration constraints satisfied: PROVED about the executed loopFD for every consistent set in the "
            "property's own sense b in range(G), redundant or not (constraints_satisfied_of_range_G: M^-1 definite, pinv a generalized "
            "inverse of G M^-1 ~G on its range) + predicate udoterr on sets an independent SVD finds consistent with a clear rank gap; "
            "(2) Newton's law with multipliers: PROVED (no assumption on pinv) + predicate newton; (3) disabled constraints: PROVED "
            "about the executed assembly filter (disabled_no_effect: deleting a disabled row anywhere changes nothing; "
            "disabled_data_irrelevant) and EXERCISED by the loopFDmask records (model assembles the enabled rows of the full "
            "constraint matrix itself) + twin-system predicates; (4) workless power: algebra PROVED (power_eq, a corollary of "
            "dot_tmulVec; calcConstraintPower's per-constraint F.V + f.u summation is tied by the power records, not modelled) + "
            "predicate on on-manifold cases whose enabled constraints are all workless, and mode testcc on the exact trajectory of "
            "the baseline's failing test.  NOT modelled: the rank decision of the multiplier solve (LAPACK QTZ with conditioning "
            "tolerance m*eps^(3/4)): pinv is a parameter with the generalized-inverse contract; cases with an ambiguous "
            "singular-value gap of G (1e-12 < s_i/s_1 <= 1e-3) are tagged illcond and only Newton's law is checked on them; M^-1 is the "
            "exported dense mass matrix (operator agreement is C01/C02); the loopFD records use M, G, f, b exported from the "
            "implementation, so they add to the predicates only the check that udot/lambda are THE solution of that system",
    assumptions=["minv is a linear right inverse of M (C01/C02); pinv satisfies A A+ A = A on range(A)",
                 "consistency of a constraint set is decided independently of the implementation by an SVD of calcG (LAPACK trusted)",
                 "calcConstraintPower = -<~G lambda, u> by virtual work (C07 force_adjoint, C04)"],
)
