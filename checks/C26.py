"""C26 — Array_ and pointer wrappers have value semantics (DESIGN.md §5 C26)."""
SPEC = dict(
    prop="C26",
    proof_module="SimbodyProofs.C26",
    sources=["SimbodyModel/Proto.lean", "SimbodyModel/C26.lean", "SimbodyProofs/C26_lemmas.lean",
             "SimbodyProofs/C26_ops.lean", "SimbodyProofs/C26_world.lean", "SimbodyProofs/C26.lean",
             "Drivers/C26.lean"],
    flow="driver_first",
    sanitize=True,
    # '' Counted/unsigned, int, move-only, signed-char index (max_size 127: capacity clamp + growth exception),
    # pointer wrappers, then the aliasing streams (finding F3): registry-detected, and the raw ASan stream
    # alias_emplace*: the same for push_back(T&&) / emplace_back / emplace (fixed by f70ab3a8) — regression streams
    modes=["", "int", "moveonly", "small", "ptr", "alias", "alias_asan", "alias_emplace", "alias_emplace_asan"],
    n=dict(quick=3000, thorough=110000),
    rtol=0.0, atol=0.0,
    rule="operation sequences (cases of 30..280 operations over three arrays / four pointers per family) generated "
         "by the Lean driver from VERIF_SEED; legality and safety of element-reference arguments decided by the "
         "model (legal, refOK); distinct = distinct operation records",
    partial=None,
    assumptions=[
        "operator new/delete and the C++ object model are trusted; the model's heap block is a list of cells",
        "Array_<T,X> is exercised for T in {Counted, int, MoveOnly}, X in {unsigned, signed char}; non-owner "
        "Array_ handles (shareData/adoptData/DontCopy constructors) and stream I/O are not modelled",
        "input-iterator (single-pass) overloads of insert/assign/constructor are not exercised "
        "(their growth sequence differs; contents follow from push_back/insert)",
    ],
)
