"""C26 — Array_ and pointer wrappers have value semantics (DESIGN.md §5 C26)."""
SPEC = dict(
    prop="C26",
    proof_module="SimbodyProofs.C26",
    sources=["SimbodyModel/Proto.lean", "SimbodyModel/C26.lean", "SimbodyProofs/C26_lemmas.lean",
             "SimbodyProofs/C26_ops.lean", "SimbodyProofs/C26_world.lean", "SimbodyProofs/C26.lean",
             "Drivers/C26.lean"],
    flow="driver_first",
    sanitize=True,
    # '' Counted/unsigned, int, move-only, signed-char index (max_size 127: capacity clamp + growth exception),
    # pointer wrappers, then the aliasing streams (finding F3): registry-detected, and the raw ASan stream
    # alias_emplace*: the same for push_back(T&&) / emplace_back / emplace (fixed by f70ab3a8) — regression streams
    modes=["", "int", "moveonly", "small", "ptr", "alias", "alias_asan", "alias_emplace", "alias_emplace_asan"],
    n=dict(quick=3000, thorough=110000),
    rtol=0.0, atol=0.0,
    rule="operation sequences (cases of 30..280 operations over three arrays / four pointers per family) generated "
         "by the Lean driver from VERIF_SEED; legality and safety of element-reference arguments decided by the "
         "model (legal, refOK); distinct = distinct operation records",
    partial="(i) PROVED about the executed model (stepFixed2 / wstepCurrent = /repo after 06f34988 + f70ab3a8): every Array_ "
            "operation incl. element-aliased const T&, T&& and emplace arguments, arbitrary legal sequences, several arrays "
            "(swap/copy/move/construct/view-to-view).  (ii) CORRESPONDENCE / PREDICATE ONLY: constructors (n), (n,v), "
            "pointer/vector/initializer_list/converting/forward-iterator ranges, the single-pass input-iterator overloads, "
            "same-array view assignment and the two ArrayView_ exceptions, non-owner handles (DontCopy ctor, shareData) are "
            "tied as driver-level folds of proved operations plus per-record comparison; reads through (nested) const views "
            "and ArrayView_=ArrayView_ are harness predicates; CloneOnWritePtr/ClonePtr theorems are single copy + write steps "
            "(cow_shares_until_write, cow_independent, cow_reset, clone_ptr_deep) — multi-step histories (copy/move assignment, "
            "release, detach, swap, 'use count = number of sharers', move constructors, self-assignment) are checked by "
            "random histories against a value-semantic reference only; reset_on_copy / reinit_on_copy / "
            "reference_ptr_shallow are DEFINITIONAL unfoldings of the model (the model is tied to the code by correspondence).  "
            "(iii) NOT COVERED: ArrayView_ objects kept alive across owner operations, adoptData, stream I/O and comparison "
            "operators of Array_, index types other than unsigned and signed char, absolute constructor-call counts "
            "(only constructions - destructions is tied).",
    assumptions=[
        "operator new/delete and the C++ object model are trusted; the model's heap block is a list of cells",
        "Array_<T,X> is exercised for T in {Counted, int, MoveOnly}, X in {unsigned, signed char}",
        "exact capacity is compared (the growth formula is modelled code): a deliberate change of the growth policy "
        "needs a model update",
    ],
)
