"""C32 — values survive text and serialization round trips; string->value conversion succeeds exactly for whole-string
literals (DESIGN.md §5 C32)."""
import os, re
from tools import vlib


def gen_string_conv(ctx=None):
    """translator: which acceptance test do String::tryConvertToBool/Float/Double end with in the current String.cpp?
    -> lean/SimbodyModel/Gen/StringConv.lean (`checksRest` flags the model branches on; rewritten only when changed)."""
    path = os.path.join(vlib.REPO, "SimTKcommon", "src", "String.cpp")
    src = open(path, errors="replace").read()
    # strip comments so that commented-out code cannot be mistaken for the live statement
    code = re.sub(r"/\*.*?\*/", lambda m: "\n" * m.group(0).count("\n"), src, flags=re.S)
    code = re.sub(r"//[^\n]*", "", code)
    out, info = {}, {}
    for fn in ("Bool", "Float", "Double"):
        m = re.search(r"bool\s+String::tryConvertTo%s\s*\([^)]*\)\s*const\s*\{" % fn, code)
        recognized, checks, line, text = False, False, 0, ""
        if m:
            depth, i = 1, m.end()
            while i < len(code) and depth:
                depth += (code[i] == "{") - (code[i] == "}")
                i += 1
            body = code[m.end():i]
            rets = [r.strip() for r in re.findall(r"return\s+([^;]*);", body)]
            last = rets[-1] if rets else ""
            text = "return %s;" % last
            line = code.count("\n", 0, m.end() + body.rfind("return")) + 1
            if re.fullmatch(r"!\s*sstream\s*\.\s*fail\s*\(\s*\)", last):
                recognized, checks = True, False                 # as found on the pinned tree: the rest is never examined
            elif "sstream" in last and last != "true" and last != "false":
                # a helper or expression that receives the stream: accepted as the whole-string test only if the file
                # really contains an eof() test applied after skipping white space
                helper = re.match(r"(\w+)\s*\(\s*sstream\s*\)", last)
                scope = body
                if helper:
                    hm = re.search(r"\b%s\s*\([^)]*\)\s*\{" % re.escape(helper.group(1)), code)
                    if hm:
                        d, j = 1, hm.end()
                        while j < len(code) and d:
                            d += (code[j] == "{") - (code[j] == "}")
                            j += 1
                        scope = code[hm.end():j]
                if re.search(r"\beof\s*\(", scope) and re.search(r"\bws\b", scope) and re.search(r"\bfail\s*\(", scope):
                    recognized, checks = True, True
        out[fn] = (recognized, checks)
        info[fn] = dict(recognized=recognized, checksRest=checks, line=line, text=text)
    rel = os.path.relpath(path, vlib.REPO)
    L = ["/-! GENERATED on every run by checks/C32.py (SPEC['gen']) from the current /repo working tree - do not edit.",
         "Source: %s - the final `return` of String::tryConvertToBool/Float/Double. -/" % rel,
         "namespace C32.Gen"]
    for fn in ("Bool", "Float", "Double"):
        L += ["/-- %s:%d  `%s` -/" % (rel, info[fn]["line"], info[fn]["text"].replace("`", "'")),
              "def recognized%s : Bool := %s" % (fn, "true" if out[fn][0] else "false"),
              "def checksRest%s : Bool := %s" % (fn, "true" if out[fn][1] else "false")]
    L += ["end C32.Gen", ""]
    txt = "\n".join(L)
    dst = os.path.join(vlib.LEAN, "SimbodyModel", "Gen", "StringConv.lean")
    os.makedirs(os.path.dirname(dst), exist_ok=True)
    if not os.path.exists(dst) or open(dst).read() != txt:
        open(dst, "w").write(txt)
    return dict(file="SimbodyModel/Gen/StringConv.lean", source=rel, functions=info)


SPEC = dict(
    prop="C32",
    proof_module="SimbodyProofs.C32",
    gen=gen_string_conv,
    sources=["SimbodyModel/Proto.lean", "SimbodyModel/Gen/StringConv.lean", "SimbodyModel/C32.lean", "SimbodyProofs/C32_lemmas.lean", "SimbodyProofs/C32.lean", "SimbodyProofs/C32_history.lean",
             "Drivers/C32.lean"],
    n=dict(quick=1500, thorough=150000),
    rtol=0.0, atol=0.0,
    lake_targets=["SimbodyProofs.C32_history"],
    rule="fixed tables of boundary literals (signs, exponents, specials, overflow/underflow thresholds, halfway cases) plus records "
         "from VERIF_SEED: literals from a decimal grammar with mutations (padding, trailing/leading junk, inner blanks, truncation), "
         "special spellings in random case, integer/bool strings, String(value) of random doubles/floats/ints/complex (NaN, Inf, "
         "signed zero, subnormals, extremes, random bit patterns), writeUnformatted/readUnformatted of 22 shapes (scalars incl. int/bool, "
         "complex, Vec, Row, Mat incl. complex elements, SymMat, Matrix_ via fillUnformatted, Vector_, RowVector_, Vector_<Vec3>, "
         "Array_<double/float/int/bool/Vec3>) read into scrambled/empty targets, with mutated texts; EncodeString/entity decoding on "
         "random strings; random XML trees (attributes with \", ' and both; text; comments; condensed and preserved white space; compact "
         "and indented strings and writeToFile/readFromFile); distinct = distinct input records",
    partial="(i) proved about the executed model: template acceptance = 'extraction succeeded and only white space is left'; the current "
            "tryConvertToDouble/Float/Bool satisfy it (translator-tied), special spellings, rejection of trailing characters (samples + the "
            "literal-grammar theorems for unsigned decimal literals without exponent); token-stream round trip of fixed aggregates and arrays "
            "CONDITIONAL on the scalar printer/parser pair (conv (sh v) = some v is a hypothesis, never instantiated); XML escaping/entity "
            "decoding round trip for strings without '&#x' when white space is kept; file = string path for CR-free values. "
            "(ii) predicate-only: value -> String -> value for double/float/int/bool/complex (NaN compared as a class: payload/sign of NaN "
            "not checked), String(value) formatting (contract 'the text denotes the value'; no model of %.17g, digits17_suffice not proved), "
            "unformatted round trip of every shape, XML tree structure/printer/parser, condensing mode. "
            "(iii) not covered: unsigned/long/long double/complex<float>, String(T,fmt), negator/conjugate element types, non-resizable "
            "views, CDATA/mixed content/Unknown nodes, formatted (bracketed) container I/O and operator<</>> of containers; libstdc++/glibc "
            "number parsing and printing are modelled and tied by exact correspondence, not verified",
    assumptions=["C locale; strings are byte strings without NUL",
                 "white-space-only element values are dropped by TinyXML (TiXmlText::Blank) and are not generated as tree values",
                 "numeric character references above 127 decode to one byte on this tree (encoding detection is dead code); the writer "
                 "never produces them"],
)
