"""C09 — successful projection lands on the constraint manifold minimally (DESIGN.md §5 C09)."""
SPEC = dict(
    prop="C09",
    proof_module="SimbodyProofs.C09",
    sources=["SimbodyModel/Proto.lean", "SimbodyModel/C09.lean", "SimbodyProofs/C09_lemmas.lean", "SimbodyProofs/C09.lean",
             "Drivers/C09.lean"],
    n=dict(quick=800, thorough=30000),
    rtol=1e-9, atol=1e-12,
    rule="case k (k mod 16): general stream = random tree of 2-6 bodies from the ceq_tree v6 palette (18 mobilizer types, reversed "
         "1/4, Euler/quaternion), 1-4 random constraints of 18 types (one DISABLED in 1/4 of the multi-constraint cases), optional "
         "Motion::Sinusoid, optional lock (position/velocity), optional random Wu/Tp/Tpv, assembled by System::project from a random "
         "state (accuracy request non-positive in 1/8; discarded when that throws, about 47 %; tagged), compared with the documented "
         "call sequence (dispatch record); then 4 rounds of perturbation of q and u (0 | 1e-8..1e-1 | far 0.3..3, rescaled "
         "quaternions) each followed by System::projectQ and projectU with random ProjectOptions (accuracy 1e-3..1e-10 or "
         "non-positive, ForceProjection, UseInfinityNorm, LocalOnly, DontThrow or caught exception, overshoot, projection limit, "
         "q/u error estimate in 1/3); linear stream (k mod 4 = 1) = qdot==u mobilizers with ConstantCoordinate / linear "
         "CoordinateCoupler / ConstantSpeed, random weights, optional lock; linearN stream (k mod 4 = 3) = the same constraints on "
         "non-quaternion coordinates of trees containing Gimbal/Bushing/Ball/Free/Ellipsoid/SphericalCoords (Euler mode 2/3): the "
         "correction is compared with the model's weighted minimum-norm step (N = I resp. S = N Wu^-1 N^+ from exported N, N^+); "
         "degenerate stream (k mod 16 = 7) = zero-length quaternion, Slider+Rod with vanishing Jacobian, quadratic SpeedCoupler "
         "without real root.  Records: projQ/projU (entry norm and worst index recomputed by the model; the MODEL decides the exit; "
         "early exits predicted field by field; Newton-path results must satisfy the Newton clause of the path-aware contract incl. "
         "iteration cap and restored-on-failure), normq (5 mobilizer types), normqP, errq, packQ/packU, minnorm, minnormN, dispatch; "
         "distinct = distinct input records",
    partial="per clause: (i) proved about the executed model, (ii) predicate / model-compared record only, (iii) not covered. "
            "success => perr <= acc: (i) success_sound over an ORACLE for the per-iteration errors + accepts_sound, (ii) perr_le_acc on the "
            "final state; 'normalising quaternions does not change perr' is (ii) only. velocity: (i) success_sound_U, (ii) uerr_le_acc. "
            "unit quaternions: (i) normalize_unit, normalizeQuatsMasked_spec, (ii) quat_unit, normq, normqP. prescribed q kept: (i) only the "
            "packing lemma and the masked normalisation, otherwise (ii) prescribed_kept + pack/minnorm records. unchanged if satisfied and "
            "unforced / iterates if forced: (i) no_change_if_ok, path-aware contract, (ii) unchanged, forced_iterates. minimum norm for "
            "linear constraints: (i) exact fields, full row rank (min_norm_documented_step N=I, min_norm_step_general any N, "
            "min_norm_relative_scaling velocity level), the driver's Gaussian elimination is certified by its residual only, (ii) minnorm / "
            "minnormN records + minnorm_kkt, (iii) rank-deficient or ill-conditioned sets (skipped, tagged) and nonlinear constraints. "
            "System::project dispatch: (i) no_throw_is_success for the default options, (ii) dispatch record. Newton iteration itself is "
            "numerical: (iii) exact iteration counts, overshoot target and back-step state are NOT tied (the per-iteration hook of "
            "notes/C09_hook.patch is not in /repo; hook_needed is null); without it the Newton path is tied only by the contract clauses "
            "its <= 20|7, FailedToConverge => LocalOnly and its >= 2, throw <=> failed and not DontThrow, Succeeded => exit norm <= acc, "
            "failure never worse than entry and exit = entry => state restored (projectU / no quaternions)",
    assumptions=["sqrt enters as a parameter; normalize_unit assumes sqrt(n)*sqrt(n) = n and n != 0",
                 "the order on the scalar field is total (IEEE NaN is outside the theorems: see findings {project,projectQ,projectU}.nonfinite.success_sound)",
                 "quaternion normalisation is assumed by the code not to change the holonomic errors; checked on the final state by the "
                 "harness (false for constraints on raw quaternion components: finding *.rawQuatCoord.perr_le_acc)",
                 "weights are set through State::updUWeights/updQErrWeights/updUErrWeights; prescribed values are what System::prescribeQ "
                 "put into the state (and the lock value for locks)"],
)
