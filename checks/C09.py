"""C09 — successful projection lands on the constraint manifold minimally (DESIGN.md §5 C09)."""
SPEC = dict(
    prop="C09",
    proof_module="SimbodyProofs.C09",
    sources=["SimbodyModel/Proto.lean", "SimbodyModel/C09.lean", "SimbodyProofs/C09_lemmas.lean", "SimbodyProofs/C09.lean",
             "Drivers/C09.lean"],
    n=dict(quick=800, thorough=60000),
    rtol=1e-9, atol=1e-12,
    rule="case k (k mod 16): general stream = random tree of 2-6 bodies from 13 mobilizer types (Euler/quaternion), 1-4 random "
         "constraints of 18 types, optional Motion::Sinusoid, optional lock (position/velocity), optional random Wu/Tp/Tpv, "
         "assembled by System::project from a random state (discarded when that throws), then 3 rounds of perturbation of q and u "
         "(0 or 1e-8..1e-1, rescaled quaternions) each followed by System::projectQ and projectU with random ProjectOptions "
         "(accuracy 1e-3..1e-10, ForceProjection, UseInfinityNorm, LocalOnly, DontThrow or caught exception, overshoot, projection "
         "limit); linear stream (k mod 4 = 1) = qdot==u mobilizers with ConstantCoordinate / linear CoordinateCoupler / ConstantSpeed, "
         "random weights, optional lock, correction compared with the weighted minimum-norm solution; degenerate stream (k mod 16 = 7) "
         "= zero-length quaternion, Slider+Rod with vanishing Jacobian, or a quadratic SpeedCoupler without real root.  Records: projQ/projU (entry norm and worst index recomputed "
         "by the model; early exits predicted field by field by the skeleton; Newton-path results accepted by the contract), normq, "
         "packQ/packU, minnorm; distinct = distinct input records",
    partial="Newton convergence itself is numerical: the skeleton takes the per-iteration constraint errors as an oracle (Jacobian, QTZ "
            "pseudo-inverse, N/N+ and realizePosition are not modelled); on the Newton path the public API shows only ProjectResults, so "
            "the tie is the kind-K contract acceptsQ/acceptsU (the full skeleton is replayed on per-iteration traces only when the hook of "
            "notes/C09_hook.patch is present in the library; tried by interposition without touching /repo: all 3908 traced calls of seeds 1,2 predicted exactly); the "
            "min-norm theorems are over exact fields and full row rank, the driver's Gaussian elimination is checked through its residual "
            "(min_norm_of_multiplier), rank-deficient cases are skipped; minimum-norm clause checked for N = identity mobilizers only",
    assumptions=["sqrt enters as a parameter; normalize_unit assumes sqrt(n)*sqrt(n) = n and n != 0",
                 "the order on the scalar field is total (IEEE NaN is outside the theorems: see findings {project,projectQ,projectU}.nonfinite.success_sound)",
                 "quaternion normalisation is assumed by the code not to change the holonomic errors; checked on the final state by the "
                 "harness (false for constraints on raw quaternion components: finding *.rawQuatCoord.perr_le_acc)",
                 "weights are set through State::updUWeights/updQErrWeights/updUErrWeights; prescribed values are what System::prescribeQ "
                 "put into the state (and the lock value for locks)"],
)
