"""C38 — non-contact force elements follow their documented laws (DESIGN.md §5 C38)."""
# the table of dependsOnlyOnPositions() x parameter allocation stages is the shared translator output of DESIGN §2.4
# (Gen/ForceParams.lean, generator owned by checks/C16.py); it is regenerated from the current source on every run
from checks.C16 import gen_force_params
SPEC = dict(
    prop="C38",
    proof_module="SimbodyProofs.C38",
    harness="ForceLaws",
    gen=gen_force_params,
    sources=["SimbodyModel/Proto.lean", "SimbodyModel/Gen/ForceParams.lean", "SimbodyModel/ForceLaws.lean", "SimbodyModel/ForceLawsDriver.lean",
             "SimbodyProofs/ForceLaws_lemmas.lean", "SimbodyProofs/C38.lean", "Drivers/C38.lean"],
    lake_targets=["SimbodyProofs.ForceLaws_lemmas"],
    n=dict(quick=700, thorough=42000),
    modes=["c38", "c38deg", "c38param"],
    rtol=1e-9, atol=1e-12,
    rule="per mode, VERIF_SEED-derived: mode c38 cycles through the 16 element kinds (incl. DiscreteForces: what is set is what is applied) (TwoPointLinearSpring/Damper/ConstantForce, CableSpring tension law on a straight path, "
         "ConstantForce/Torque, MobilityLinearSpring/Damper/ConstantForce/DiscreteForce/LinearStop, GlobalDamper, UniformGravity, "
         "Gravity with exclusions, LinearBushing) on random trees of 1-4 bodies (Free/Pin/Slider/Ball, random frames, random q,u), "
         "random parameters; c38deg = coincident stations; c38param = 30 kinds of parameter/default/enable/exclusion change (state-level setters after realize; setDefault*/topology-level setters followed by realizeTopology, compared with an independently constructed system) between two "
         "realizations compared with a fresh State; distinct = distinct input records",
    partial="Force::Thermostat and Force::Custom are not modelled; CableSpring: the tension/energy/power-loss law on the path length is "
            "modelled and proved (cable_law_eq_doc), the path geometry (straight path only in the harness) is CablePath's (C45); "
            "LinearBushing's Euler-angle extraction (libm atan2) is taken from the implementation (getQ) and only checked for "
            "consistency with the model's own R_FM; the clause 'changes take effect at the next realization' is proved for the abstract "
            "force-cache model (param_change_effective_next_realize), instantiated for EVERY ForceImpl subclass of the current source through "
            "the regenerated table (param_table_ok by decide, param_change_effective_all_classes; Force::Custom delegates to user code and "
            "is excluded), and checked per element on the implementation (P lines of mode c38param, 30 kinds of change); the abstract "
            "cache is a two-line model of GeneralForceSubsystem's cachedForcesAreValid protocol - the full protocol is C16's model; UniformGravity's PE: the pinned tree deviated from the documentation (fixed in /repo 5f9a9c23; "
            "uniformGravity_pe_eq_doc is now unconditional, the P line UniformGravity.zeroHeight.pe_eq_doc keeps watching it)",
    assumptions=["libm sqrt/cos/sin are trusted (sqrt enters the model as a function parameter)",
                 "the 'documented law' definitions (doc* in SimbodyModel/ForceLaws.lean) are a hand transcription of the header comments"],
)
