"""C11 — simulations conserve energy and momentum when physics says so (DESIGN.md §5 C11)."""
SPEC = dict(
    prop="C11",
    proof_module="SimbodyProofs.C11",
    sources=["SimbodyModel/Proto.lean", "SimbodyModel/C04.lean", "SimbodyModel/C11.lean", "SimbodyProofs/C04_lemmas.lean",
             "SimbodyProofs/C04.lean", "SimbodyProofs/C11.lean", "Drivers/C11.lean"],
    n=dict(quick=200, thorough=4000),
    rtol=1e-9, atol=1e-12,
    rule="random models from VERIF_SEED (1-5 bodies; Pin/Ball/Slider/Universal/Free/Cylinder/Weld/Planar/Translation/Screw + lone "
         "particle; gravity, two-point and mobility springs, elastic joint stops, one Rod/PointInPlane/Ball constraint, dampers, damped "
         "LinearBushing, Hunt-Crossley sphere/half-space contact), each simulated with one of the 8 integrators at accuracy 1e-3..1e-8 "
         "(first-order methods 1e-4..1e-6) over T in [1,2.5]; conservative cases are simulated a second time at accuracy/100; one "
         "record per trajectory (final state) + trajectory predicates; every 4th case is a dissipative-element zoo case (14 element x regime "
         "classes in turn, regime visit verified from the trajectory); distinct = distinct trajectories",
    partial="EVERY clause of the property is decided by implementation-side predicates (ii): energy drift against per-(integrator, "
            "accuracy) constants measured on the clean tree (x10) AND the accuracy-convergence ratio drift(acc/100)/drift(acc); momentum "
            "likewise; energy non-increasing with dampers; E + reported dissipation constant (LinearBushing; Hunt-Crossley contact, low "
            "dissipation class; high dissipation class shows known finding traj.contact.account.highDissipation). PROVED about the "
            "executed model (i) are only the continuous-time links: rigid-body power and momentum rates (jets), joint reactions do no "
            "work on any tree, system power balance, momentum rate for arbitrary applied forces and its zero-net-wrench corollary. "
            "NOT covered (iii): Gimbal/Bushing/Ellipsoid/... mobilizers and Euler-angle mode along trajectories, more than one "
            "constraint, CableSpring and mesh/brick contact dissipation reports, any a-priori drift bound (integrators are C20's subject)",
    assumptions=["jets: d/dt by the product rule; rigid motion read as Rdot = [w]x R (trusted-base item 6)",
                 "cells whose bound allows >= 10 % of the energy scale are tagged `uninformative.*`; the final `coverage` record requires "
                 ">= 2 (>= 10 for n >= 1000) informative (bound or convergence-ratio) energy judgements per integrator per run"],
)
