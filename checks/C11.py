"""C11 — simulations conserve energy and momentum when physics says so (DESIGN.md §5 C11)."""
SPEC = dict(
    prop="C11",
    proof_module="SimbodyProofs.C11",
    sources=["SimbodyModel/Proto.lean", "SimbodyModel/C04.lean", "SimbodyModel/C11.lean", "SimbodyProofs/C04_lemmas.lean",
             "SimbodyProofs/C04.lean", "SimbodyProofs/C11.lean", "Drivers/C11.lean"],
    n=dict(quick=300, thorough=6000),
    rtol=1e-9, atol=1e-12,
    rule="random models from VERIF_SEED (1-5 bodies; Pin/Ball/Slider/Universal/Free/Cylinder/Weld; gravity, two-point and mobility "
         "springs, one Rod/PointInPlane/Ball constraint, dampers, damped LinearBushing), each simulated with one of the 8 "
         "integrators at accuracy 1e-3..1e-7 over T in [1,2.5]; one record per trajectory (final state) + trajectory predicates; "
         "distinct = distinct trajectories",
    partial="trajectory-level clauses (energy drift <= c*accuracy*T*scale, momentum drift, monotone decrease with dampers, "
            "energy + reported dissipation constant) are MEASURED on the implementation against constants recorded from the clean "
            "tree (margin x10); what is PROVED are the continuous-time links: rigid-body power and momentum rates (jets), joint "
            "reactions do no work on any tree, system power balance, momentum telescoping; the integrators themselves are C20's subject",
    assumptions=["jets: d/dt by the product rule; rigid motion read as Rdot = [w]x R (trusted-base item 6)",
                 "Gimbal mobilizers and Euler-angle mode are excluded from the simulated models (their chart singularity can be reached "
                 "along a trajectory, where error control, not physics, decides the drift)"],
)
