"""C03 — velocity kinematics is the time derivative of position kinematics (DESIGN.md §5 C03)."""
SPEC = dict(
    prop="C03",
    proof_module="SimbodyProofs.C03",
    sources=["SimbodyModel/Proto.lean", "SimbodyModel/Mobilizer.lean", "SimbodyModel/MobilizerIO.lean",
             "SimbodyProofs/MobilizerLemmas.lean", "SimbodyProofs/C03.lean", "Drivers/C03.lean"],
    n=dict(quick=1500, thorough=60000),
    rtol=1e-9, atol=1e-12,
    rule="single-joint systems Ground->body: 18 built-in types x {identity, translation-only, general} inboard x outboard "
         "frames x forward/reversed x quaternion/Euler x random q,u, plus 10% random trees (2-6 bodies quick, 2-12 thorough; "
         "chain/star/random branching), plus a STATE-REUSE stream: 17 types + 8 FunctionBased mirrors x 5 orders of {set q, set u, "
         "realize P/V/A} on one State object, observed at the end (D tags reuse.*); from VERIF_SEED; distinct = distinct input records",
    partial="(i) proved about the executed model: X_FM jets for Pin, Slider, Cylinder, Screw, Translation, Planar, BendStretch, "
            "Universal, Gimbal, Bushing, Cantilever, Ball/Free/Ellipsoid (both options), LineOrientation/FreeLine (both options, "
            "FORWARD definition only), SphericalCoords (via C05 docX + code_eq_doc); HDot_FM of every type with non-constant H; "
            "the default reversed H_FM and HDot_FM; H_PB_G / HDot_PB_G; the tree step and its induction along any path from "
            "Ground (path_vel_is_derivative); Ball/Free N, NInv, NDot, qdotdot blocks.  (ii) predicate/correspondence only: "
            "the LineOrientation/FreeLine N/NInv/NDot/qdotdot blocks and their reversed use of the cached R_FM (this is where "
            "the known findings are), Weld, total Coriolis acceleration of whole trees (fd_cor), 2nd-order central differences "
            "(h=1e-5) stand in for the 'high-order' differences of the quantifier.  (iii) not covered: Custom/FunctionBased "
            "mobilizers (C04/C06 exercise them)",
    assumptions=["libm sin/cos/sqrt trusted: angles are trig pairs (c,s) with c^2+s^2=1; 1/cos(q1) and 1/|q| are parameters with their defining equations as hypotheses",
                 "jet lifts of cos, sin, 1/cos, 1/sqrt are definitions (DESIGN.md §3 item 6); 'rigid motion' is read as Rdot=[w]x R, pdot=v",
                 "finite-difference predicates use h=1e-5 central differences: truncation O(h^2)~1e-10, rounding eps/h~1e-11, bound 1e-6"],
)
