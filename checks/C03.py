"""C03 — velocity kinematics is the time derivative of position kinematics (DESIGN.md §5 C03)."""
SPEC = dict(
    prop="C03",
    proof_module="SimbodyProofs.C03",
    sources=["SimbodyModel/Proto.lean", "SimbodyModel/Mobilizer.lean", "SimbodyModel/MobilizerIO.lean",
             "SimbodyProofs/MobilizerLemmas.lean", "SimbodyProofs/C03.lean", "Drivers/C03.lean"],
    n=dict(quick=1500, thorough=60000),
    rtol=1e-9, atol=1e-12,
    rule="single-joint systems Ground->body: 18 built-in types x {identity, translation-only, general} inboard x outboard "
         "frames x forward/reversed x quaternion/Euler x random q,u, plus 10% random trees (2-6 bodies quick, 2-12 thorough; "
         "chain/star/random branching) from VERIF_SEED; distinct = distinct input records",
    partial="HDot of a *reversed* mobilizer (calcReverseMobilizerHDot_FM) and of the ground-frame HDot_PB_G, and the "
            "LineOrientation/FreeLine N/NInv/NDot blocks, are tied by correspondence (Coriolis acceleration, multiplyByN*) "
            "and by the finite-difference predicates only; Custom/FunctionBased mobilizers are not modelled here",
    assumptions=["libm sin/cos/sqrt trusted: angles are trig pairs (c,s) with c^2+s^2=1; 1/cos(q1) and 1/|q| are parameters with their defining equations as hypotheses",
                 "jet lifts of cos, sin, 1/cos, 1/sqrt are definitions (DESIGN.md §3 item 6); 'rigid motion' is read as Rdot=[w]x R, pdot=v",
                 "finite-difference predicates use h=1e-5 central differences: truncation O(h^2)~1e-10, rounding eps/h~1e-11, bound 1e-6"],
)
