"""C05 — built-in mobilizers realise their documented parameterisation (DESIGN.md §5 C05)."""
SPEC = dict(
    prop="C05",
    proof_module="SimbodyProofs.C05",
    sources=["SimbodyModel/Proto.lean", "SimbodyModel/Mobilizer.lean", "SimbodyModel/MobilizerIO.lean",
             "SimbodyProofs/MobilizerLemmas.lean", "SimbodyProofs/C05.lean", "Drivers/C05.lean"],
    n=dict(quick=1500, thorough=60000),
    rtol=1e-9, atol=1e-12,
    rule="single-joint systems Ground->body: 18 built-in types x {identity, translation-only, general} inboard x outboard "
         "frames x forward/reversed x quaternion/Euler, random q,u (angles away from Euler singularities, quaternions "
         "normalised or not) from VERIF_SEED; distinct = distinct input records",
    partial="(i) proved about the executed model and tied by O-lines: code_eq_doc / X_isRot / speeds_meaning for Pin, Slider, "
            "Cylinder, Screw, Translation, Planar, BendStretch, Universal, Gimbal, Bushing, Ball, Free, SphericalCoords, "
            "Cantilever (driver answers X_FM with docX0, V_FM with H u); fitU (setUToFitVelocity to an ARBITRARY target, both "
            "directions) for 13 types and the translation fit for 7 types are predicted by Spec.fitU / Spec.fitQtrans "
            "(O fitU / O fitQt) and fitU_roundtrip is proved about those definitions.  (ii) predicate only: all atan2-based "
            "setQToFitRotation/Transform fits (fit_q, fit_R), the partial entry points (fit_p, fit_w, fit_v), fits of "
            "BendStretch, SphericalCoords, Ellipsoid, Cantilever (these are where the known findings are); Ellipsoid surface "
            "point and LineOrientation/FreeLine X_FM use the coded form as docX0 (the header gives no closed form); "
            "reverse_is_inverse is X^-1 X = 1 about the model's definition of reversal, the tie is the reversed records and "
            "the rev_inverse_X/V predicates.  (iii) not covered: Custom/FunctionBased (C06), fits from targets produced by a "
            "different mobilizer type",
    assumptions=["libm sin/cos/sqrt are trusted: angles enter the model as trig pairs (c,s) with c^2+s^2=1, 1/|q| as a parameter with oon^2 (q.q)=1",
                 "the jet lifts (d cos = -sin qdot, d sin = cos qdot, d(1/sqrt x) = -x'/(2 x^{3/2})) are definitions (DESIGN.md §3 item 6)",
                 "docX_FM is the reading of MobilizedBody_<Type>.h (trusted-base item 8)"],
)
