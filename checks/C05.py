"""C05 — built-in mobilizers realise their documented parameterisation (DESIGN.md §5 C05)."""
SPEC = dict(
    prop="C05",
    proof_module="SimbodyProofs.C05",
    sources=["SimbodyModel/Proto.lean", "SimbodyModel/Mobilizer.lean", "SimbodyModel/MobilizerIO.lean",
             "SimbodyProofs/MobilizerLemmas.lean", "SimbodyProofs/C05.lean", "Drivers/C05.lean"],
    n=dict(quick=1500, thorough=60000),
    rtol=1e-9, atol=1e-12,
    rule="single-joint systems Ground->body: 18 built-in types x {identity, translation-only, general} inboard x outboard "
         "frames x forward/reversed x quaternion/Euler, random q,u (angles away from Euler singularities, quaternions "
         "normalised or not) from VERIF_SEED; distinct = distinct input records",
    partial="Ellipsoid/LineOrientation/FreeLine have no documented closed form for every part of X_FM (surface point, "
            "M-frame speeds): for these the documented facts are theorems (on_surface, speeds in M) and X_FM is tied by "
            "correspondence to the coded formula; fitQ (atan2-based) is checked by implementation-side predicates only, "
            "fitU is proved for the algebraic types",
    assumptions=["libm sin/cos/sqrt are trusted: angles enter the model as trig pairs (c,s) with c^2+s^2=1, 1/|q| as a parameter with oon^2 (q.q)=1",
                 "the jet lifts (d cos = -sin qdot, d sin = cos qdot, d(1/sqrt x) = -x'/(2 x^{3/2})) are definitions (DESIGN.md §3 item 6)",
                 "docX_FM is the reading of MobilizedBody_<Type>.h (trusted-base item 8)"],
)
