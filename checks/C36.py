"""C36 — mesh queries match brute force and bounding volumes contain (DESIGN.md §5 C36)."""
SPEC = dict(
    prop="C36",
    proof_module="SimbodyProofs.C36",
    sources=["SimbodyModel/Proto.lean", "SimbodyModel/Geom.lean", "SimbodyModel/C34.lean", "SimbodyModel/C35.lean",
             "SimbodyModel/C36.lean", "SimbodyProofs/C34_lemmas.lean", "SimbodyProofs/C35_lemmas.lean",
             "SimbodyProofs/C36.lean", "Drivers/C36.lean"],
    n=dict(quick=500, thorough=5000),
    rtol=1e-9, atol=1e-12,
    modes=["", "degenerate"],
    rule="mode '': oriented boxes with random frames/sizes x (point, ray); point clouds (4..43 points) for "
         "OrientedBoundingBox(points), Geo::Point boxes and bounding spheres; 2- and 3-point spheres; closed meshes "
         "(perturbed icospheres, anisotropic star shapes, boxes with thin triangles, tori; 12..320 faces) with 6 "
         "(nearest point, ray) queries each and the real OBB tree exported through getOBBTreeNode(); adjacency tables; "
         "OBJ / VTP / ascii+binary STL files (closed triangle meshes and open quad strips) written under /tmp/agent-C36 "
         "and read back by PolygonalMesh::loadFile; mode 'degenerate': coplanar / collinear / cospherical / coincident "
         "clouds, obtuse and collinear triples, box meshes queried at centre / vertex / face points, region-6 witness; "
         "distinct = distinct input records",
    partial="the branch-and-bound search is proved over an abstract tree with admissible bounds and run on the exported "
            "real tree; that the real boxes contain their triangles is checked per run (node_contains_triangles) and "
            "lifted by box_contains_hull / obb_bound_admissible; OBB construction (eigen-decomposition + rotation "
            "search), the n-point and 4-point bounding spheres, inside/outside parity, PolygonalMesh file parsing and "
            "the 100*Eps angle tie-break of findNearestPoint are decided by implementation-side predicates only; "
            "SmoothHeightMap's OBB tree and mesh/mesh collision are not exercised",
    assumptions=["libm sqrt is trusted (SqrtSpec)", "rotations enter through IsRot"],
)
