"""C36 — mesh queries match brute force and bounding volumes contain (DESIGN.md §5 C36)."""
SPEC = dict(
    prop="C36",
    proof_module="SimbodyProofs.C36",
    sources=["SimbodyModel/Proto.lean", "SimbodyModel/Geom.lean", "SimbodyModel/C34.lean", "SimbodyModel/C35.lean",
             "SimbodyModel/C36.lean", "SimbodyProofs/C34_lemmas.lean", "SimbodyProofs/C35_lemmas.lean",
             "SimbodyProofs/C36.lean", "Drivers/C36.lean"],
    n=dict(quick=500, thorough=5000),
    rtol=1e-9, atol=1e-12,
    modes=["", "degenerate"],
    rule="mode '': oriented boxes with random frames/sizes x (point, ray); point clouds (4..43 points) for "
         "OrientedBoundingBox(points), Geo::Point boxes and bounding spheres; 2- and 3-point spheres; closed meshes "
         "(perturbed icospheres, anisotropic star shapes, boxes with thin triangles, tori; 12..320 faces) with 6 "
         "(nearest point, ray) queries each and the real OBB tree exported through getOBBTreeNode(); adjacency tables; "
         "OBJ / VTP / ascii+binary STL files (closed triangle meshes and open quad strips) written under /tmp/agent-C36 "
         "and read back by PolygonalMesh::loadFile; mode 'degenerate': coplanar / collinear / cospherical / coincident "
         "clouds, obtuse and collinear triples, box meshes queried at centre / vertex / face points, region-6 witness, "
         "fixed syntax variants of OBJ / VTP / ascii STL files, sliver meshes and thin tetrahedra, and once per run a directed "
         "per-face stream (13 triangle shapes incl. obtuse / sliver / right / needle at each vertex position x 7 plane regions "
         "x near/far x 4 heights, with a coverage floor); half of the meshes use smooth=true; "
         "distinct = distinct input records",
    partial="(i) PROVED about the executed model: the branch-and-bound descent over the exported real tree returns the "
            "triDist2-minimal face (mesh_nearest_eq_bruteforce) and the face with the smallest ray parameter "
            "(mesh_ray_eq_bruteforce), given XT.Valid (every node box contains the vertices below it; checked per run by "
            "node_contains_triangles) and, for rays, HitInFace; findNearestPointToFace returns the closest point of the face "
            "(triNearest_params/point/minimal: KKT + convexity on all 25 leaves of the seven regions), so the reported face "
            "holds the nearest point of the whole surface (mesh_nearest_is_closest); OBB distance and ray-entry bounds are admissible; 2-/3-point spheres contain (by "
            "construction of the radius; no theorem on the centre choice or minimality); topology predicate sound. "
            "(ii) PREDICATE ONLY: that a face's ray hit lies in the face (HitInFace; independent routine over all faces), inside/outside parity, normal overloads and smooth "
            "normals, OBB construction (eigen-decomposition + rotation search), n-point and 4-point spheres, PolygonalMesh "
            "file parsing (OBJ/VTP/STL incl. syntax variants), the 100*Eps angle tie-break of findNearestPoint. "
            "(iii) NOT COVERED: SmoothHeightMap's OBB tree, mesh/mesh collision, Geo::OBBTree, float instantiations, "
            "binary/appended VTP (rejected by the loader); simbody has no mesh writer, so only loading is checked",
    assumptions=["libm sqrt is trusted (SqrtSpec)", "rotations enter through IsRot"],
)
