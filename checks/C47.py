"""C47 — geodesics lie on their surfaces and agree across methods (DESIGN.md §5 C47)."""
SPEC = dict(
    prop="C47",
    proof_module="SimbodyProofs.C47",
    sources=["SimbodyModel/Proto.lean", "SimbodyModel/Geom.lean", "SimbodyModel/C34.lean", "SimbodyModel/C35.lean",
             "SimbodyModel/C47.lean", "SimbodyProofs/C34_lemmas.lean", "SimbodyProofs/C35_lemmas.lean",
             "SimbodyProofs/C47.lean", "Drivers/C47.lean"],
    n=dict(quick=600, thorough=12000),
    rtol=1e-9, atol=1e-12,
    modes=["", "degenerate"],
    rule="mode '': random radii (0.3..3), approximate start points (up to 20 % off the surface) and tangents (with a "
         "normal component), lengths 0.1..2.8 r, 2..13 knots for the analytic sphere / cylinder shooters; random two-point "
         "problems for calcGeodesicAnalytical; implicit shooting on sphere, cylinder, ellipsoid and torus from random "
         "surface points and directions (lengths 0.2..2 x size); two-point orthogonal method vs analytic; mode "
         "'degenerate': two knots, zero length, full turns, axial / circumferential helices, nearly antipodal points, "
         "ellipsoid equator / meridian, torus inner / outer equator, a batch of 60 legacy-interface shots; "
         "distinct = distinct input records",
    partial="great circles and helices are modelled and proved (on surface, unit tangent orthogonal to the normal, "
            "zero geodesic curvature, arc-length parametrisation, Jacobi scalars); the implicit integrator "
            "(GeodesicIntegrator, ParticleConSurfaceSystem) is not modelled: its geodesics on all four surfaces are "
            "decided by implementation-side predicates (surface / tangency residuals at every knot, agreement with an "
            "independent fine-step RK4 integration of the geodesic equation, with the analytic method, and between "
            "interfaces); continueGeodesic, plane-terminated shooting and the split-geodesic solver are not exercised",
    assumptions=["libm sqrt / sin / cos / atan2 are trusted (trig pairs with c^2+s^2=1 in the theorems)",
                 "jet lift of a trig pair (c' = -s phi', s' = c phi') is a definition (DESIGN.md section 3 item 6)"],
)
