"""C47 — geodesics lie on their surfaces and agree across methods (DESIGN.md §5 C47)."""
SPEC = dict(
    prop="C47",
    proof_module="SimbodyProofs.C47",
    sources=["SimbodyModel/Proto.lean", "SimbodyModel/Geom.lean", "SimbodyModel/C34.lean", "SimbodyModel/C35.lean",
             "SimbodyModel/C47.lean", "SimbodyProofs/C34_lemmas.lean", "SimbodyProofs/C35_lemmas.lean",
             "SimbodyProofs/C47.lean", "Drivers/C47.lean"],
    n=dict(quick=600, thorough=12000),
    rtol=1e-9, atol=1e-12,
    modes=["", "degenerate"],
    rule="mode '': random radii (0.3..3), approximate start points (up to 20 % off the surface) and tangents (with a "
         "normal component), lengths 0.1..2.8 r, 2..13 knots for the analytic sphere / cylinder shooters; random two-point "
         "problems for calcGeodesicAnalytical; implicit shooting on sphere, cylinder, ellipsoid and torus from random "
         "surface points and directions (lengths 0.2..2 x size); two-point orthogonal method vs analytic; mode "
         "'degenerate': two knots, zero length, full turns, axial / circumferential helices, nearly antipodal points, "
         "ellipsoid equator / meridian, torus inner / outer equator, a batch of 60 legacy-interface shots, one sphere and one "
         "cylinder geodesic with 100..1000 knots, objects resized through their setters (class after_setter); "
         "distinct = distinct input records",
    partial="(i) PROVED about the executed model: the analytic sphere / cylinder shooters as coded (frame accumulated by "
            "R = dR*R per knot) equal the closed-form great circle / helix at the trig pair of k*dAngle, hence every knot is "
            "on the surface with a unit tangent orthogonal to the normal; closed form: zero geodesic curvature, unit speed, "
            "Jacobi scalars; start frame from SqrtSpec (exact arithmetic: floating-point drift of the never re-orthogonalised "
            "product is only observed, 100-1000 knots once per run). (ii) PREDICATE ONLY: calcGeodesicAnalytical (left/right "
            "arc choice and atan2 wrap have no theorem; tie 1e-9 plus frames-on-surface / ends-at-P-and-Q / shoot-arrives "
            "predicates), the implicit integrator (GeodesicIntegrator, ParticleConSurfaceSystem) on all four surfaces "
            "(surface / tangency residuals at every knot, independent fine-step RK4 of the geodesic equation, analytic vs "
            "implicit, orthogonal two-point method), knot-array bookkeeping of the legacy Geodesic object. (iii) NOT "
            "COVERED: continueGeodesic, shootGeodesicInDirectionUntilPlaneHit, the split calcGeodesic, Geodesic::calcLengthDot",
    assumptions=["libm sqrt / sin / cos / atan2 are trusted (trig pairs with c^2+s^2=1 in the theorems)",
                 "jet lift of a trig pair (c' = -s phi', s' = c phi') is a definition (DESIGN.md section 3 item 6)"],
)
