"""C14 — mobilizer reaction forces satisfy Newton-Euler for every body (DESIGN.md §5 C14)."""
SPEC = dict(
    prop="C14",
    proof_module="SimbodyProofs.C14",
    sources=["SimbodyModel/Proto.lean", "SimbodyModel/TreeDyn.lean", "SimbodyModel/TreeDynIO.lean", "SimbodyModel/C14.lean",
             "SimbodyProofs/TreeDynAbs.lean", "SimbodyProofs/TreeDynRefine.lean", "SimbodyProofs/TreeDynSim.lean", "SimbodyProofs/TreeDynSimAbi.lean", "SimbodyProofs/TreeDynSimFwd.lean", 
             "SimbodyProofs/C14.lean", "Drivers/C14.lean"],
    n=dict(quick=300, thorough=20000),
    rtol=1e-9, atol=1e-12,
    rule="random trees from VERIF_SEED as in C01 (17 mobilizer types incl. Weld, forward/reversed, 9 frame pairs, quaternion/Euler), "
         "plus one massless intermediate body in some chains, Motion::Steady / Motion::Sinusoid prescribed mobilizers (1/6 of the "
         "eligible ones), one Rod / Ball / PointInPlane constraint in 1/3 of the cases, random applied mobility and body forces; "
         "one forced lone-particle configuration per 25 cases; distinct = distinct exported records",
    partial="the property theorems are stated on the abstract Matrix twin TreeDynAbs.MBT; the executed rose-tree/list recursions of SimbodyModel/TreeDyn.lean are tied to it by NODE-LEVEL simulation theorems (TreeDynSim*.lean: for every executed subtree and incoming parent acceleration the value the executed pass stores at the node equals the twin quantity on the abstracted tree: multiplyByM, articulated body inertias P/P+/G incl. the explicit symmetrisation, multiplyByMInv, forward dynamics, inverse dynamics, J^T, reactions; free mobilizers only) plus refinement lemmas per 6-D operation. NOT proved: packing of the per-node blocks into the u-vector (slice/scatter, disjoint u0 ranges), construction of the tree from the flat parent array, that the Gauss-Jordan ginv inverts D (WF is a hypothesis of the ABI-dependent simulations, validated per case by O wf), hence no end-to-end array identity such as multiplyByM(multiplyByMInv f) = f for the executed functions; those links are carried by the correspondence; the prescribed-mobilizer branch (P+ = P, z += P H udot_p, tau) and constraint forces are part of the executable model "
            "and of the implementation-side predicates, but the abstract theorems cover free (non-prescribed) mobilizers; "
            "constraint forces enter the theorems as applied forces",
    assumptions=[
        "exported-H mode: H, Mk_G, body origins, a = getMobilizerCoriolisAcceleration, b = getGyroscopicForce, the constraint "
        "forces (calcConstraintForcesFromMultipliers) and the prescribed accelerations are taken from the implementation",
        "cases whose constraint multipliers exceed 1e4 (constraint between rigidly connected bodies) are counted and skipped",
    ],
)
