"""C25 — Matrix_/Vector_/RowVector_ objects and views behave like the matrices they denote; fixed-size
Vec/Row/Mat/SymMat arithmetic; negator/conjugate adaptors (DESIGN.md §5 C25)."""
SPEC = dict(
    prop="C25",
    proof_module="SimbodyProofs.C25",
    sources=["SimbodyModel/Proto.lean", "SimbodyModel/C25.lean", "SimbodyModel/C25_machine.lean",
             "SimbodyModel/C25_small.lean", "SimbodyProofs/C25_lemmas.lean", "SimbodyProofs/C25.lean",
             "Drivers/C25.lean"],
    flow="driver_first",
    modes=["", "small"],
    n=dict(quick=2400, thorough=120000),
    rtol=0.0, atol=0.0,     # kind D: small-integer-valued doubles, every sum/product exact; records with a division
                            # (inv2/inv3/syminv3) carry their own `T 1e-9 1e-12` line
    rule="the Lean driver generates legal op sequences (VERIF_SEED) over 8 handles (shapes 0..12, view expressions of "
         "depth 0..3 from block/row/col/diag/transpose/negate/sub-vector/index, 33 op kinds, fresh handles every 400 ops) "
         "and `small` records (det/inverse/cross/SymMat layout/negator/conjugate); distinct = distinct op lines",
    partial=None,
    assumptions=[
        "element types float and std::complex<double> (and the conjugate/negator element types their views produce) are "
        "checked by harness-only predicates against a brute-force dense reference inside the harness, not by the Lean model",
        "Vec3/SpatialVec matrix elements, triangular/symmetric big-matrix helpers (not reachable through the public "
        "Matrix_ API on this tree) and LAPACK-backed invertInPlace/lapackInverse are not exercised",
        "aliasing between source and destination of one operation, illegal indices and shape mismatches are never "
        "generated (undefined behaviour in the release build); the Lean model decides legality",
    ],
)
