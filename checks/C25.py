"""C25 — Matrix_/Vector_/RowVector_ objects and views behave like the matrices they denote; fixed-size
Vec/Row/Mat/SymMat arithmetic; negator/conjugate adaptors (DESIGN.md §5 C25)."""
SPEC = dict(
    prop="C25",
    proof_module="SimbodyProofs.C25",
    sources=["SimbodyModel/Proto.lean", "SimbodyModel/C25.lean", "SimbodyModel/C25_machine.lean",
             "SimbodyModel/C25_small.lean", "SimbodyProofs/C25_lemmas.lean", "SimbodyProofs/C25_machine_lemmas.lean",
             "SimbodyProofs/C25_det_lemmas.lean", "SimbodyProofs/C25.lean", "Drivers/C25.lean"],
    flow="driver_first",
    modes=["", "small"],
    n=dict(quick=2400, thorough=120000),
    rtol=0.0, atol=0.0,     # kind D: small-integer-valued doubles, every sum/product exact; records with a division or a
                            # square root (inv2/inv3/syminv3, norms/einv/ediv) carry their own `T` line
    rule="the Lean driver generates legal op sequences (VERIF_SEED) over 8 handles (shapes 0..12, view expressions of "
         "depth 0..3 from block/row/col/diag/transpose/negate/sub-vector/index, 38 op kinds incl. same-owner disjoint "
         "source/destination, writes through index views, odd-transpose view handles; fresh handles every 400 ops), "
         "replayed on double (O lines) and float/complex/Vec3/SpatialVec elements (P lines); `small` records: det/inverse/"
         "cross/SymMat layout/Mat<M,N> products (sizes 1..6, non-square, strided transposes)/Vec<N>,Row<N> (N=1..6)/"
         "negator/conjugate incl. 144 mixed scalar products, sums, differences, quotients; distinct = distinct op lines",
    partial=(
        "(i) PROVED about the executed model: view addressing of block/row/col/diag/transpose/negate expressions of any "
        "depth = composed index map, injective and in-bounds on every owner layout (also index views, with their DOCUMENTED "
        "addressing; the as-coded IndexedVectorHelper addressing is modelled and proved to differ unless the source is "
        "contiguous = known finding); store-size invariant and frame property of every op of `step`; write-through "
        "(exactly the viewed cells change, nothing is dropped) instantiated to resolveExpr/writeRes; value-level "
        "'view of view denotes the composed matrix' (transpose/block/negate); the in-place ops (fill zero scale negip eadd "
        "esubfrom add sub emul and copy-into-view) and freshly built owner stores read back exactly the Dense reference value; "
        "Mat22/33, SymMat33 det/inverse, cross products, negator and conjugate + - x, SymMat packed index bijection, "
        "recursive determinant at 4 (multiplicative, transpose) and triangular 5, 6.  "
        "(ii) PREDICATE/CORRESPONDENCE ONLY (no theorem): exceptions and legality of resize/resizeKeep/clear/lock/viewAssign "
        "(the dangling-view rule is computed by viewCount, not proved sufficient), the producers mul/mulv/dot/plus/minus/smul/"
        "deep and rowscale/colscale/sassign/sdiv as statements about `step` (only their shared helpers are proved), the norm "
        "family (norm normRMS normInf abs), elementwiseInvert/Divide, rowAndColScale (in-place form; the value-returning "
        "overload does not compile), sums; float, complex (conjugate / negator<conjugate> element views), Vec3 and SpatialVec "
        "elements are judged by the harness's own brute-force dense shadow only (for Vec3/SpatialVec about 30% of the ops — "
        "products, elementwise products, scalings by vectors, abs/norms, mixed Hermitian-typed operands — are not "
        "expressible through the public API and are only followed on the reference: D tags emulated.<type>.<op>); "
        "general det 5,6, Mat<M,N>/Vec<N>/Row<N> arithmetic at sizes 1,4-6, negator/conjugate division.  "
        "(iii) NOT COVERED: triangular/symmetric big-matrix helpers (unreachable from Matrix_ on this tree), LAPACK-backed "
        "invertInPlace/lapackInverse/inverse for M>3, SymMat beyond 3x3 arithmetic, external-data (shared memory) "
        "constructors, overlapping source/destination of one op, negated view HANDLES (viewAssign of a negator-typed view "
        "does not type-check in the real API), stream I/O"),
    assumptions=[
        "aliasing between overlapping source and destination cells, illegal indices and shape mismatches are never "
        "generated (undefined behaviour in the release build); the Lean model decides legality",
    ],
)
