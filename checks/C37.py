"""C37 — compliant contact forces follow their documented laws (DESIGN.md §5 C37)."""
SPEC = dict(
    prop="C37",
    proof_module="SimbodyProofs.C37",
    harness="ForceLaws",
    sources=["SimbodyModel/Proto.lean", "SimbodyModel/ForceLaws.lean", "SimbodyModel/ForceLawsDriver.lean",
             "SimbodyProofs/ForceLaws_lemmas.lean", "SimbodyProofs/C37.lean", "Drivers/C37.lean"],
    lake_targets=["SimbodyProofs.ForceLaws_lemmas"],
    n=dict(quick=540, thorough=27000),
    modes=["c37", "c37multi", "c37deg"],
    rtol=1e-9, atol=1e-12,
    rule="mode c37 cycles HuntCrossleyForce (generic / no penetration), SmoothSphereHalfSpaceForce, ExponentialSpringForce normal part, "
         "Hertz contacts of CompliantContactSubsystem (generic / no penetration), ElasticFoundationForce mesh scenes; 1-4 spheres, "
         "half space or sphere-sphere, approaching / slow / sliding / fast separating, random materials; c37multi = 2-4 balls on a "
         "half space with fast-separating ones (finding F6); c37deg = smooth model with zero dissipation / fast separation; "
         "distinct = distinct input records",
    partial="Hertz elliptical, brick/half-space and elastic-foundation *generators* of CompliantContactSubsystem are not modelled "
            "(only HertzCircular); ExponentialSpringForce: normal force modelled, friction (anchor/sliding states) only through the "
            "implementation-side predicates; the contact geometry (location, normal, depth, nearest points) is taken from the "
            "implementation (C34-C36)",
    assumptions=["libm sqrt/tanh/pow/exp are trusted (function parameters of the model: SqrtSpec, TanhSpec, pow >= 0)",
                 "friction theorems assume combined coefficients 0 <= ud <= us, 0 <= uv (not validated by HuntCrossleyForce::setBodyParameters)"],
)
