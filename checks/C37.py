"""C37 — compliant contact forces follow their documented laws (DESIGN.md §5 C37)."""
SPEC = dict(
    prop="C37",
    proof_module="SimbodyProofs.C37",
    harness="ForceLaws",
    sources=["SimbodyModel/Proto.lean", "SimbodyModel/ForceLaws.lean", "SimbodyModel/ForceLawsDriver.lean",
             "SimbodyProofs/ForceLaws_lemmas.lean", "SimbodyProofs/C37.lean", "Drivers/C37.lean"],
    lake_targets=["SimbodyProofs.ForceLaws_lemmas"],
    n=dict(quick=540, thorough=27000),
    modes=["c37", "c37multi", "c37deg"],
    rtol=1e-9, atol=1e-12,
    rule="mode c37 cycles HuntCrossleyForce (generic 1-4 spheres / guaranteed no penetration), SmoothSphereHalfSpaceForce, "
         "ExponentialSpringForce normal part, Hertz contacts of CompliantContactSubsystem (generic / no penetration), "
         "ElasticFoundationForce mesh scenes (mesh/half space, mesh/sphere, mesh/mesh with both surfaces carrying springs), "
         "CompliantContactSubsystem mesh/half-space, brick/half-space, ellipsoid/half-space (HertzElliptical), mesh/sphere scenes "
         "(predicates only; one in four with a guaranteed gap), ExponentialSpringForce with a displaced friction anchor followed by "
         "the auto-update of anchor and sliding state (predicates only); approaching / slow / sliding / fast separating, random "
         "materials; c37multi = 2-4 balls on a half space with fast-separating ones (finding F6, fixed in /repo 61cb6d63); "
         "c37deg = smooth model with zero dissipation / fast separation; distinct = distinct input records",
    partial="(i) proved about the executed model and compared with the implementation: HuntCrossleyForce (per contact and loop), "
            "HertzCircular path of CompliantContactSubsystem, ElasticFoundationForce per spring (incl. mesh-mesh), "
            "SmoothSphereHalfSpaceForce, ExponentialSpringForce normal force; magnitudes are tied to the executed definitions "
            "(hc_fn_eq_doc, hertz_fNormal_eq_doc, ef_f_eq_doc, exp_law_eq_doc; smooth_law_eq_doc is a restatement of the same "
            "expression tree - the header formula IS the code). (ii) predicates only: HertzElliptical, BrickHalfSpacePenalty and the "
            "ElasticFoundation generator of CompliantContactSubsystem (non-attraction w.r.t. the half-space normal, no force without "
            "penetration, power loss >= 0, PE >= 0; elliptical additionally friction bound/direction), ExponentialSpring friction "
            "(<= mu*fz, in plane, = elastic + damping, damping part opposes slip, elastic part opposes the anchor displacement, "
            "mu in [muk, mus], before and after the auto-update; 'opposes slip' is claimed for the damping part only). "
            "(iii) not covered: the settle dynamics of the Sliding state over time, contact geometry (taken from the implementation, "
            "C34-C36). Known finding: the smooth model is attractive for v < -2/(3c) (smooth_normal_sign_model)",
    assumptions=["libm sqrt/tanh/pow/exp are trusted (function parameters of the model: SqrtSpec, TanhSpec, pow >= 0)",
                 "friction theorems assume combined coefficients 0 <= ud <= us, 0 <= uv (not validated by HuntCrossleyForce::setBodyParameters)"],
)
