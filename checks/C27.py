"""C27 — Rotations and transforms are proper and conversions round-trip (DESIGN.md §5 C27)."""
SPEC = dict(
    prop="C27",
    proof_module="SimbodyProofs.C27",
    sources=["SimbodyModel/Proto.lean", "SimbodyModel/Spatial.lean", "SimbodyModel/C27.lean",
             "SimbodyProofs/Spatial.lean", "SimbodyProofs/C27.lean", "Drivers/C27.lean"],
    n=dict(quick=4000, thorough=400000),
    rtol=1e-9, atol=1e-12,
    rule="cases drawn from VERIF_SEED by harness/C27.cpp: every setRotationFrom* / convert*To* of Rotation_<double> and "
         "Rotation_<float> (1/4 of the cases), all 9 axis pairs and all 27 axis triples in body- and space-fixed form, "
         "angles uniform / near 0 / near pi / near +-pi/2 down to 1e-17 / exact special values; quaternions uniform, "
         "near identity, near and exactly 180 degrees, dominant component and exact ties (all four Spurrier branches); "
         "UnitVec::perp incl. axis-aligned and equal-component vectors; two-axis construction incl. zero / parallel / "
         "nearly parallel second vector; Transform / InverseTransform algebra; distinct = distinct input records",
    partial=None,
    assumptions=[
        "angles enter the model as trig pairs (c,s) with c*c+s*s=1; the angle-sum formulas are the specification of cos/sin of a sum",
        "libm sqrt/atan2/cos/sin are trusted: sqrt enters the theorems through SqrtSpec, atan2 through theorems about the "
        "argument pairs it is handed (they are positive multiples of the original trig pairs away from the singular set)",
        "Rotation_<float> is compared with the double evaluation of the same model at single-precision tolerance",
    ],
)
