"""C27 — Rotations and transforms are proper and conversions round-trip (DESIGN.md §5 C27)."""
SPEC = dict(
    prop="C27",
    proof_module="SimbodyProofs.C27",
    sources=["SimbodyModel/Proto.lean", "SimbodyModel/Spatial.lean", "SimbodyModel/C27.lean",
             "SimbodyProofs/Spatial.lean", "SimbodyProofs/C27.lean", "SimbodyProofs/C27_sqrt.lean", "Drivers/C27.lean"],
    lake_targets=["SimbodyProofs.C27_sqrt"],     # witness that SqrtSpec is satisfiable (Real.sqrt)
    n=dict(quick=4000, thorough=400000),
    rtol=1e-9, atol=1e-12,
    rule="cases drawn from VERIF_SEED by harness/C27.cpp: every stream runs for Rotation_<double> and for Rotation_<float> "
         "(1/4 of the cases; same 22 streams): every setRotationFrom* / convert*To*, all 9 axis pairs and all 27 axis triples in body- and space-fixed form, "
         "angles uniform / near 0 / near pi / near +-pi/2 down to 1e-17 / exact special values; quaternions uniform, "
         "near identity, near and exactly 180 degrees, dominant component and exact ties (all four Spurrier branches); "
         "UnitVec::perp incl. axis-aligned and equal-component vectors; two-axis construction incl. zero / parallel / "
         "nearly parallel second vector; Transform / InverseTransform algebra, Rotation products, re-expression, quaternion "
         "product, closest-rotation fitting of noisy matrices; three-angle extraction also from rotations NOT built by the "
         "same-sequence constructor (quaternion-built; near-gimbal rotations reached through a product, |cos th2| down to "
         "1e-14); D tags count the extraction branch taken (regular / singular+ / singular-); NON-canonical inputs as guaranteed "
         "classes (3 of 28 streams + products): unit quaternions with q0 < 0, q0 == 0, q0 tiny +-, q0 near -1, normalised from raw "
         "Vec4, products of canonical factors beyond 180 degrees; angle-axis with angle in (pi,2pi), negative, beyond 2pi, near "
         "+-pi, either axis orientation; distinct = distinct input records",
    partial="atan2 is a parameter: the Euler / angle-axis theorems are about the executed extraction functions and state "
            "exactly which (sin-like, cos-like) pairs atan2 is handed in every branch (regular and both gimbal-lock branches, "
            "all 6+6 axis orders, body and space); that atan2(k sin t, k cos t) = t for k > 0 is libm (trusted).  Predicate/"
            "correspondence only (no theorem): extraction for sequences with a repeated adjacent axis, extraction from "
            "rotations not built by the same-sequence constructor, closest-rotation fitting of noisy input, Rotation products "
            "(the model is the matrix product by definition), Quaternion::multiply's normalisation.  Not covered: "
            "Quaternion::normalizeThis zero/NaN cases, setQuaternionFromAngleAxis(Vec4) eps branches, "
            "isSameRotationToWithinAngle.  The round trip does NOT hold to working precision near gimbal lock for general "
            "rotations (finding keys toThree[F].general.neargimbal.rt_halfprecision)",
    assumptions=[
        "angles enter the model as trig pairs (c,s) with c*c+s*s=1; the angle-sum formulas are the specification of cos/sin of a sum",
        "libm sqrt/atan2/cos/sin are trusted: sqrt enters the theorems through SqrtSpec, atan2 through theorems about the "
        "argument pairs it is handed (they are positive multiples of the original trig pairs away from the singular set)",
        "Rotation_<float> is compared with the double evaluation of the same model at single-precision tolerance",
    ],
)
